/-
Helper lemmas for C10/C02: the session-window state machine.  Core Lean only.
-/
import SsqlVerif.Model.Session
set_option autoImplicit false
set_option linter.unusedVariables false
set_option linter.unusedSimpArgs false

namespace Session
open Wm

/-- shape of an open session: its bounds are exactly its rows' extremes, end = latest + timeout -/
structure SessOk (timeout : Int) (s : Sess) : Prop where
  hne : s.rows ≠ []
  hstop : s.stop = s.lastActive + timeout
  hbounds : ∀ r ∈ s.rows, s.start ≤ r.ts ∧ r.ts ≤ s.lastActive
  hmin : ∃ r ∈ s.rows, r.ts = s.start
  hmax : ∃ r ∈ s.rows, r.ts = s.lastActive

theorem newSess_ok (k : Key) (r : Row) (timeout : Int) : SessOk timeout (newSess k r timeout) :=
  { hne := by simp [newSess]
    hstop := rfl
    hbounds := by intro x hx; simp [newSess] at hx; subst hx; exact ⟨Int.le_refl _, Int.le_refl _⟩
    hmin := ⟨r, by simp [newSess], rfl⟩
    hmax := ⟨r, by simp [newSess], rfl⟩ }

theorem extend_ok (s : Sess) (r : Row) (timeout : Int) (h : SessOk timeout s) : SessOk timeout (extend s r timeout) := by
  have hst := h.hstop
  refine
    { hne := by simp [extend]
      hstop := ?_
      hbounds := ?_
      hmin := ?_
      hmax := ?_ }
  · simp only [extend]
    by_cases hl : s.lastActive < r.ts
    · have : s.stop < r.ts + timeout := by omega
      simp [hl, this]
    · simp [hl, hst]
  · intro x hx
    simp only [extend, List.mem_append, List.mem_singleton] at hx ⊢
    rcases hx with hx | hx
    · have := h.hbounds x hx
      constructor
      · split <;> omega
      · split <;> omega
    · subst hx
      constructor
      · split <;> omega
      · split <;> omega
  · simp only [extend]
    by_cases hl : r.ts < s.start
    · exact ⟨r, by simp, by simp [hl]⟩
    · obtain ⟨m, hm, hmt⟩ := h.hmin
      exact ⟨m, by simp [hm], by simp [hl, hmt]⟩
  · simp only [extend]
    by_cases hl : s.lastActive < r.ts
    · exact ⟨r, by simp, by simp [hl]⟩
    · obtain ⟨m, hm, hmt⟩ := h.hmax
      exact ⟨m, by simp [hm], by simp [hl, hmt]⟩

/-- all open sessions are well-shaped -/
def AllOk (w : SWin) : Prop := ∀ s ∈ w.sessions, SessOk w.timeout s

theorem replaceHead_mem (l : List Sess) (k : Key) (f : Sess → Sess) (x : Sess) (hx : x ∈ replaceHead l k f) :
    (x ∈ l ∧ isHead k x = false) ∨ ∃ y ∈ l, isHead k y = true ∧ x = f y := by
  simp only [replaceHead, List.mem_map] at hx
  obtain ⟨y, hy, hxy⟩ := hx
  by_cases hh : isHead k y = true
  · rw [if_pos hh] at hxy; exact Or.inr ⟨y, hy, hh, hxy.symm⟩
  · rw [if_neg hh] at hxy; subst hxy; exact Or.inl ⟨hy, by simpa using hh⟩

theorem allOk_add (w : SWin) (k : Key) (r : Row) (now : Int) (h : AllOk w) : AllOk (stepAdd w k r now).1 := by
  intro s hs
  have hs' : s ∈ addSessions w k r now := hs
  show SessOk w.timeout s
  unfold addSessions at hs'
  split at hs'
  · simp only [List.mem_append, List.mem_singleton] at hs'
    rcases hs' with hs' | hs'
    · exact h s hs'
    · subst hs'; exact newSess_ok k r w.timeout
  · simp only [List.mem_append, List.mem_singleton] at hs'
    rcases hs' with hs' | hs'
    · rcases replaceHead_mem _ _ _ _ hs' with ⟨h1, _⟩ | ⟨y, hy, _, rfl⟩
      · exact h s h1
      · have := h y hy
        exact ⟨this.hne, this.hstop, this.hbounds, this.hmin, this.hmax⟩
    · subst hs'; exact newSess_ok k r w.timeout
  · rcases replaceHead_mem _ _ _ _ hs' with ⟨h1, _⟩ | ⟨y, hy, _, rfl⟩
    · exact h s h1
    · exact extend_ok y r w.timeout (h y hy)
  · exact h s hs'

theorem mem_sortSess (l : List Sess) (x : Sess) : x ∈ sortSess l ↔ x ∈ l := by
  have hins : ∀ (s : Sess) (m : List Sess) (y : Sess), y ∈ insertSorted s m ↔ y = s ∨ y ∈ m := by
    intro s m
    induction m with
    | nil => intro y; simp [insertSorted]
    | cons a m ih =>
      intro y
      simp only [insertSorted]
      split
      · simp
      · simp only [List.mem_cons, ih]
        constructor
        · rintro (h | h | h)
          · exact Or.inr (Or.inl h)
          · exact Or.inl h
          · exact Or.inr (Or.inr h)
        · rintro (h | h | h)
          · exact Or.inr (Or.inl h)
          · exact Or.inl h
          · exact Or.inr (Or.inr h)
  induction l with
  | nil => simp [sortSess]
  | cons a l ih =>
    simp only [sortSess, List.foldr_cons] at ih ⊢
    have ih' : x ∈ List.foldr insertSorted [] l ↔ x ∈ l := ih
    rw [hins, List.mem_cons]
    exact ⟨fun h => h.elim Or.inl (fun h => Or.inr (ih'.mp h)), fun h => h.elim Or.inl (fun h => Or.inr (ih'.mpr h))⟩

theorem allOk_expire (w : SWin) (x : Int) (h : AllOk w) : AllOk (stepExpire w x).1 := by
  intro s hs
  simp only [stepExpire, List.mem_filter] at hs
  exact h s hs.1

/-- every delivered session is well-shaped and the watermark value has passed its end -/
theorem expire_emissions (w : SWin) (x : Int) (h : AllOk w) (ht : 0 < w.timeout) :
    ∀ e ∈ (stepExpire w x).2, e.late = false ∧ e.rows ≠ [] ∧ e.stop ≤ x ∧
      (∀ r ∈ e.rows, e.start ≤ r.ts ∧ r.ts + w.timeout ≤ e.stop) ∧
      (∃ r ∈ e.rows, r.ts = e.start) ∧ (∃ r ∈ e.rows, r.ts + w.timeout = e.stop) := by
  intro e he
  simp only [stepExpire, List.mem_map] at he
  obtain ⟨s, hs, rfl⟩ := he
  rw [mem_sortSess, List.mem_filter] at hs
  have hok := h s hs.1
  refine ⟨rfl, hok.hne, ?_, ?_, hok.hmin, ?_⟩
  · have := hs.2
    simp only [expiredBy, Bool.or_eq_true, decide_eq_true_eq] at this
    have hst := hok.hstop
    rcases this with h1 | h1
    · exact h1
    · show s.stop ≤ x
      omega
  · intro r hr
    have := hok.hbounds r hr
    have hst := hok.hstop
    exact ⟨this.1, by show r.ts + w.timeout ≤ s.stop; omega⟩
  · obtain ⟨m, hm, hmt⟩ := hok.hmax
    exact ⟨m, hm, by show m.ts + w.timeout = s.stop; rw [hok.hstop, hmt]⟩

/-! ### conservation: every on-time row is in an open session or was delivered, exactly once -/

def openRows (w : SWin) : List Row := w.sessions.flatMap (·.rows)
def firstRows (es : List Emission) : List Row := (es.filter (fun e => !e.late)).flatMap (·.rows)

theorem count_flatMap_filter_split (l : List Sess) (p : Sess → Bool) (x : Row) :
    ((l.filter p).flatMap (·.rows)).count x + ((l.filter (fun s => !p s)).flatMap (·.rows)).count x
      = (l.flatMap (·.rows)).count x := by
  induction l with
  | nil => simp
  | cons a l ih =>
    by_cases hp : p a <;> simp [List.filter_cons, hp, List.flatMap_cons, List.count_append] <;> omega

theorem perm_sortSess (l : List Sess) : (sortSess l).Perm l := by
  have hins : ∀ (s : Sess) (m : List Sess), (insertSorted s m).Perm (s :: m) := by
    intro s m
    induction m with
    | nil => exact List.Perm.refl _
    | cons a m ih =>
      simp only [insertSorted]
      split
      · exact List.Perm.refl _
      · exact (List.Perm.cons a ih).trans (List.Perm.swap s a m)
  induction l with
  | nil => exact List.Perm.refl _
  | cons a l ih =>
    simp only [sortSess, List.foldr_cons] at ih ⊢
    exact (hins a _).trans (List.Perm.cons a ih)

theorem expire_conserve (w : SWin) (x : Int) (r : Row) :
    (openRows (stepExpire w x).1).count r + (firstRows (stepExpire w x).2).count r = (openRows w).count r := by
  simp only [stepExpire, openRows, firstRows]
  have h1 : ((sortSess (w.sessions.filter (expiredBy w x))).map
      (fun s => ({ late := false, key := s.key, start := s.start, stop := s.stop, rows := s.rows } : Emission))).filter (fun e => !e.late)
      = (sortSess (w.sessions.filter (expiredBy w x))).map
      (fun s => ({ late := false, key := s.key, start := s.start, stop := s.stop, rows := s.rows } : Emission)) := by
    apply List.filter_eq_self.mpr
    intro e he
    simp only [List.mem_map] at he
    obtain ⟨s, _, rfl⟩ := he
    rfl
  rw [h1, List.flatMap_map]
  have h2 : ((sortSess (w.sessions.filter (expiredBy w x))).flatMap (·.rows)).count r
      = ((w.sessions.filter (expiredBy w x)).flatMap (·.rows)).count r := by
    have hp := perm_sortSess (w.sessions.filter (expiredBy w x))
    exact (hp.flatMap_right _).count_eq r
  have := count_flatMap_filter_split w.sessions (expiredBy w x) r
  simp only at h2 ⊢
  omega

end Session

namespace Session
open Wm

theorem count_replaceHead (l : List Sess) (k : Key) (f : Sess → Sess) (x : Row)
    (hone : (l.filter (isHead k)).length ≤ 1) (g : Sess → Nat)
    (hf : ∀ s, isHead k s = true → (f s).rows.count x = s.rows.count x + g s) :
    ((replaceHead l k f).flatMap (·.rows)).count x
      = (l.flatMap (·.rows)).count x + ((l.filter (isHead k)).map g).sum := by
  induction l with
  | nil => simp [replaceHead]
  | cons a l ih =>
    have hone' : (l.filter (isHead k)).length ≤ 1 := by
      simp only [List.filter_cons] at hone
      split at hone
      · simp only [List.length_cons] at hone; omega
      · exact hone
    have := ih hone'
    simp only [replaceHead, List.map_cons, List.flatMap_cons, List.count_append] at this ⊢
    by_cases hh : isHead k a = true
    · simp only [hh, if_true, List.filter_cons, List.map_cons, List.sum_cons]
      rw [hf a hh]
      omega
    · simp only [hh, Bool.false_eq_true, if_false, List.filter_cons]
      omega

/-- at most one head session per key -/
def HeadsUnique (w : SWin) : Prop := ∀ k, (w.sessions.filter (isHead k)).length ≤ 1

theorem head?_some_filter (w : SWin) (k : Key) (h : Sess) (hu : HeadsUnique w) (hh : head? w k = some h) :
    w.sessions.filter (isHead k) = [h] := by
  have h1 : h ∈ w.sessions.filter (isHead k) := by
    unfold head? at hh
    exact List.mem_filter.mpr ⟨List.mem_of_find?_eq_some hh, List.find?_some hh⟩
  have h2 := hu k
  match hl : w.sessions.filter (isHead k), h1, h2 with
  | [a], h1, _ => simp only [List.mem_singleton] at h1; rw [h1]
  | [], h1, _ => cases h1
  | _ :: _ :: _, _, h2 => simp at h2

theorem head?_none_filter (w : SWin) (k : Key) (hh : head? w k = none) :
    w.sessions.filter (isHead k) = [] := by
  unfold head? at hh
  rw [List.find?_eq_none] at hh
  exact List.filter_eq_nil_iff.mpr (fun a ha => by simpa using hh a ha)

theorem filter_isHead_replace_park (l : List Sess) (k k' : Key) (n : Nat) (hn : n ≠ 0) :
    (replaceHead l k (fun s => { s with park := n })).filter (isHead k')
      = if k' = k then [] else l.filter (isHead k') := by
  induction l with
  | nil => simp [replaceHead]
  | cons a l ih =>
    simp only [replaceHead, List.map_cons] at ih ⊢
    by_cases hh : isHead k a = true
    · simp only [hh, if_true, List.filter_cons]
      have hak : a.key = k ∧ a.park = 0 := by simpa [isHead] using hh
      have h1 : isHead k' { a with park := n } = false := by simp [isHead, hn]
      rw [h1]
      simp only [Bool.false_eq_true, if_false, ih]
      by_cases hk : k' = k
      · simp [hk]
      · have : isHead k' a = false := by
          simp only [isHead, Bool.and_eq_false_iff, beq_eq_false_iff_ne]
          left; rw [hak.1]; exact fun h => hk h.symm
        simp [hk, this]
    · simp only [hh, Bool.false_eq_true, if_false, List.filter_cons, ih]
      by_cases hk : k' = k
      · subst hk; simp [hh]
      · simp only [hk, if_false]

theorem filter_isHead_replace_extend (l : List Sess) (k k' : Key) (r : Row) (t : Int) :
    ((replaceHead l k (fun s => extend s r t)).filter (isHead k')).length = (l.filter (isHead k')).length := by
  induction l with
  | nil => simp [replaceHead]
  | cons a l ih =>
    simp only [replaceHead, List.map_cons] at ih ⊢
    by_cases hh : isHead k a = true
    · simp only [hh, if_true, List.filter_cons]
      have : isHead k' (extend a r t) = isHead k' a := by simp [isHead, extend]
      rw [this]
      split <;> simp [ih]
    · simp only [hh, Bool.false_eq_true, if_false, List.filter_cons]
      split <;> simp [ih]

theorem fate_create_none (w : SWin) (k : Key) (r : Row) (now : Int) (h : fate w k r now = .create) :
    head? w k = none := by
  unfold fate at h
  split at h
  · split at h
    · unfold lateFate at h; split at h <;> cases h
    · cases h
  · unfold onTimeFate at h
    split at h
    · assumption
    · unfold headFate at h; split at h <;> cases h

theorem fate_extend_head (w : SWin) (k : Key) (r : Row) (now : Int) (hd : Sess) (h : fate w k r now = .extendHead hd) :
    head? w k = some hd := by
  unfold fate at h
  split at h
  · split at h
    · unfold lateFate at h; split at h <;> cases h
    · cases h
  · unfold onTimeFate at h
    split at h
    · cases h
    · rename_i h' hh
      unfold headFate at h; split at h
      · cases h
      · cases h; exact hh

theorem headsUnique_add (w : SWin) (k : Key) (r : Row) (now : Int) (hu : HeadsUnique w) :
    HeadsUnique (stepAdd w k r now).1 := by
  intro k'
  show ((addSessions w k r now).filter (isHead k')).length ≤ 1
  have hnew : ∀ k', k' ≠ k → isHead k' (newSess k r w.timeout) = false := by
    intro k' hk
    simp only [isHead, newSess, Bool.and_eq_false_iff, beq_eq_false_iff_ne]
    left; exact fun h => hk h.symm
  have hnewk : isHead k (newSess k r w.timeout) = true := by simp [isHead, newSess]
  unfold addSessions
  split
  · rename_i hf
    simp only [List.filter_append, List.filter_cons, List.filter_nil]
    by_cases hk : k' = k
    · subst hk
      rw [head?_none_filter w k' (fate_create_none w k' r now hf), hnewk]; simp
    · rw [hnew k' hk]
      simp only [Bool.false_eq_true, if_false, List.append_nil]
      exact hu k'
  · simp only [List.filter_append, List.filter_cons, List.filter_nil]
    rw [filter_isHead_replace_park _ _ _ _ (by omega)]
    by_cases hk : k' = k
    · subst hk; rw [hnewk]; simp
    · rw [hnew k' hk]
      simp only [hk, if_false, Bool.false_eq_true, List.append_nil]
      exact hu k'
  · rw [filter_isHead_replace_extend]; exact hu k'
  · exact hu k'

theorem headsUnique_expire (w : SWin) (x : Int) (hu : HeadsUnique w) : HeadsUnique (stepExpire w x).1 := by
  intro k
  simp only [stepExpire]
  rw [List.filter_filter]
  have : (w.sessions.filter (fun s => isHead k s && !expiredBy w x s)).length ≤ (w.sessions.filter (isHead k)).length := by
    have h2 : w.sessions.filter (fun s => isHead k s && !expiredBy w x s)
        = (w.sessions.filter (isHead k)).filter (fun s => !expiredBy w x s) := by
      rw [List.filter_filter]
      apply List.filter_congr
      intro a _; exact Bool.and_comm _ _
    rw [h2]
    exact List.length_filter_le _ _
  exact Nat.le_trans this (hu k)

/-- a late row never becomes an accepted (on-time) row -/
theorem fate_late (w : SWin) (k : Key) (r : Row) (now : Int) (hl : lateNow w r now = true) :
    (∃ t, fate w k r now = .lateAbsorb t) ∨ fate w k r now = .lateDrop := by
  unfold fate
  rw [if_pos hl]
  split
  · unfold lateFate; split
    · exact Or.inl ⟨_, rfl⟩
    · exact Or.inr rfl
  · exact Or.inr rfl

theorem fate_ontime (w : SWin) (k : Key) (r : Row) (now : Int) (hl : lateNow w r now = false) :
    fate w k r now = .create ∨ (∃ h, fate w k r now = .park h) ∨ (∃ h, fate w k r now = .extendHead h) := by
  unfold fate
  rw [if_neg (by simp [hl])]
  unfold onTimeFate
  split
  · exact Or.inl rfl
  · unfold headFate; split
    · exact Or.inr (Or.inl ⟨_, rfl⟩)
    · exact Or.inr (Or.inr ⟨_, rfl⟩)

/-- an Add puts an on-time row into exactly one open session and leaves every other row where it is -/
theorem add_conserve (w : SWin) (k : Key) (r : Row) (now : Int) (x : Row) (hu : HeadsUnique w) :
    (openRows (stepAdd w k r now).1).count x + (firstRows (stepAdd w k r now).2).count x
      = (openRows w).count x + (acceptedBy w (.add k r now)).count x := by
  show ((addSessions w k r now).flatMap (·.rows)).count x + (firstRows (addEmit w k r now)).count x
      = (openRows w).count x + (if lateNow w r now then [] else [r]).count x
  by_cases hl : lateNow w r now = true
  · rw [if_pos hl]
    rcases fate_late w k r now hl with ⟨t, hf⟩ | hf <;>
      simp [addSessions, addEmit, hf, openRows, firstRows]
  · have hl' : lateNow w r now = false := by simpa using hl
    rw [if_neg hl]
    rcases fate_ontime w k r now hl' with hf | ⟨h, hf⟩ | ⟨h, hf⟩
    · simp [addSessions, addEmit, hf, openRows, firstRows, newSess, List.flatMap_append, List.count_append]
    · simp only [addSessions, addEmit, hf, openRows, firstRows, List.flatMap_append, List.count_append,
        List.filter_nil, List.flatMap_nil, List.count_nil, Nat.add_zero]
      have := count_replaceHead w.sessions k (fun s => { s with park := w.parkSeq + 1 }) x (hu k) (fun _ => 0)
        (by intro s _; rfl)
      rw [this]
      have hz : ((w.sessions.filter (isHead k)).map (fun _ => 0)).sum = 0 := by
        generalize w.sessions.filter (isHead k) = l
        induction l with
        | nil => rfl
        | cons a l ih => simp [ih]
      rw [hz]
      simp [newSess, List.flatMap_cons]
    · simp only [addSessions, addEmit, hf, openRows, firstRows, List.filter_nil, List.flatMap_nil, List.count_nil,
        Nat.add_zero]
      have := count_replaceHead w.sessions k (fun s => extend s r w.timeout) x (hu k) (fun _ => [r].count x)
        (by intro s _; simp [extend, List.count_append])
      rw [this, head?_some_filter w k h hu (fate_extend_head w k r now h hf)]
      simp

end Session
