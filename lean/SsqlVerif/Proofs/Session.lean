/-
Helper lemmas for C10/C02: the session-window state machine (several open sessions per key,
merge on bridge).  Core Lean only.
-/
import SsqlVerif.Model.Session
set_option autoImplicit false
set_option linter.unusedVariables false
set_option linter.unusedSimpArgs false

namespace Session
open Wm

/-! ### extremes over a list of sessions -/

theorem maxLast_ge_init (l : List Sess) (m : Int) : m ≤ maxLast l m := by
  induction l generalizing m with
  | nil => exact Int.le_refl _
  | cons s ss ih =>
    simp only [maxLast]
    by_cases h : m < s.lastActive
    · rw [if_pos h]; have := ih s.lastActive; omega
    · rw [if_neg h]; exact ih m

theorem maxLast_ge_mem (l : List Sess) (m : Int) (s : Sess) (hs : s ∈ l) : s.lastActive ≤ maxLast l m := by
  induction l generalizing m with
  | nil => cases hs
  | cons a ss ih =>
    simp only [maxLast]
    rcases List.mem_cons.mp hs with h | h
    · subst h
      by_cases h' : m < s.lastActive
      · rw [if_pos h']; exact maxLast_ge_init ss s.lastActive
      · rw [if_neg h']; have := maxLast_ge_init ss m; omega
    · exact ih _ h

theorem maxLast_attained (l : List Sess) (m : Int) : maxLast l m = m ∨ ∃ s ∈ l, maxLast l m = s.lastActive := by
  induction l generalizing m with
  | nil => exact Or.inl rfl
  | cons a ss ih =>
    simp only [maxLast]
    rcases ih (if m < a.lastActive then a.lastActive else m) with h | ⟨s, hs, h⟩
    · by_cases hlt : m < a.lastActive
      · rw [if_pos hlt] at h ⊢; exact Or.inr ⟨a, by simp, h⟩
      · rw [if_neg hlt] at h ⊢; exact Or.inl h
    · exact Or.inr ⟨s, by simp [hs], h⟩

theorem minStart_le_init (l : List Sess) (m : Int) : minStart l m ≤ m := by
  induction l generalizing m with
  | nil => exact Int.le_refl _
  | cons s ss ih =>
    simp only [minStart]
    by_cases h : s.start < m
    · rw [if_pos h]; have := ih s.start; omega
    · rw [if_neg h]; exact ih m

theorem minStart_le_mem (l : List Sess) (m : Int) (s : Sess) (hs : s ∈ l) : minStart l m ≤ s.start := by
  induction l generalizing m with
  | nil => cases hs
  | cons a ss ih =>
    simp only [minStart]
    rcases List.mem_cons.mp hs with h | h
    · subst h
      by_cases h' : s.start < m
      · rw [if_pos h']; exact minStart_le_init ss s.start
      · rw [if_neg h']; have := minStart_le_init ss m; omega
    · exact ih _ h

theorem minStart_attained (l : List Sess) (m : Int) : minStart l m = m ∨ ∃ s ∈ l, minStart l m = s.start := by
  induction l generalizing m with
  | nil => exact Or.inl rfl
  | cons a ss ih =>
    simp only [minStart]
    rcases ih (if a.start < m then a.start else m) with h | ⟨s, hs, h⟩
    · by_cases hlt : a.start < m
      · rw [if_pos hlt] at h ⊢; exact Or.inr ⟨a, by simp, h⟩
      · rw [if_neg hlt] at h ⊢; exact Or.inl h
    · exact Or.inr ⟨s, by simp [hs], h⟩

/-! ### sorting is a permutation -/

theorem mem_insertSorted (s : Sess) (m : List Sess) (y : Sess) : y ∈ insertSorted s m ↔ y = s ∨ y ∈ m := by
  induction m with
  | nil => simp [insertSorted]
  | cons a m ih =>
    simp only [insertSorted]
    split
    · simp
    · simp only [List.mem_cons, ih]
      constructor
      · rintro (h | h | h)
        · exact Or.inr (Or.inl h)
        · exact Or.inl h
        · exact Or.inr (Or.inr h)
      · rintro (h | h | h)
        · exact Or.inr (Or.inl h)
        · exact Or.inl h
        · exact Or.inr (Or.inr h)

theorem mem_sortSess (l : List Sess) (x : Sess) : x ∈ sortSess l ↔ x ∈ l := by
  induction l with
  | nil => simp [sortSess]
  | cons a l ih =>
    have ih' : x ∈ List.foldr insertSorted [] l ↔ x ∈ l := ih
    simp only [sortSess, List.foldr_cons]
    rw [mem_insertSorted, List.mem_cons]
    exact ⟨fun h => h.elim Or.inl (fun h => Or.inr (ih'.mp h)), fun h => h.elim Or.inl (fun h => Or.inr (ih'.mpr h))⟩

theorem perm_sortSess (l : List Sess) : (sortSess l).Perm l := by
  have hins : ∀ (s : Sess) (m : List Sess), (insertSorted s m).Perm (s :: m) := by
    intro s m
    induction m with
    | nil => exact List.Perm.refl _
    | cons a m ih =>
      simp only [insertSorted]
      split
      · exact List.Perm.refl _
      · exact (List.Perm.cons a ih).trans (List.Perm.swap s a m)
  induction l with
  | nil => exact List.Perm.refl _
  | cons a l ih =>
    simp only [sortSess, List.foldr_cons] at ih ⊢
    exact (hins a _).trans (List.Perm.cons a ih)

theorem mem_touched (w : SWin) (k : Key) (r : Row) (s : Sess) :
    s ∈ touched w k r ↔ s ∈ w.sessions ∧ touches w.timeout k r.ts s = true := by
  unfold touched; rw [mem_sortSess, List.mem_filter]

/-! ### shape of an open session -/

/-- its bounds are exactly its rows' extremes, end = latest + timeout -/
structure SessOk (timeout : Int) (s : Sess) : Prop where
  hne : s.rows ≠ []
  hstop : s.stop = s.lastActive + timeout
  hbounds : ∀ r ∈ s.rows, s.start ≤ r.ts ∧ r.ts ≤ s.lastActive
  hmin : ∃ r ∈ s.rows, r.ts = s.start
  hmax : ∃ r ∈ s.rows, r.ts = s.lastActive

theorem newSess_ok (k : Key) (r : Row) (timeout : Int) (p : Nat) : SessOk timeout (newSess k r timeout p) :=
  { hne := by simp [newSess]
    hstop := rfl
    hbounds := by intro x hx; simp [newSess] at hx; subst hx; exact ⟨Int.le_refl _, Int.le_refl _⟩
    hmin := ⟨r, by simp [newSess], rfl⟩
    hmax := ⟨r, by simp [newSess], rfl⟩ }

theorem merged_rows_mem (timeout : Int) (t : Sess) (os : List Sess) (r x : Row) :
    x ∈ (merged timeout t os r).rows ↔ x = r ∨ ∃ s ∈ t :: os, x ∈ s.rows := by
  simp only [merged, List.mem_append, List.mem_flatMap, List.mem_singleton]
  constructor
  · rintro (⟨s, hs, hx⟩ | h)
    · exact Or.inr ⟨s, hs, hx⟩
    · exact Or.inl h
  · rintro (h | ⟨s, hs, hx⟩)
    · exact Or.inr h
    · exact Or.inl ⟨s, hs, hx⟩

theorem merged_ok (timeout : Int) (t : Sess) (os : List Sess) (r : Row)
    (hall : ∀ s ∈ t :: os, SessOk timeout s) : SessOk timeout (merged timeout t os r) := by
  refine
    { hne := by simp [merged]
      hstop := rfl
      hbounds := ?_
      hmin := ?_
      hmax := ?_ }
  · intro x hx
    rcases (merged_rows_mem timeout t os r x).mp hx with h | ⟨s, hs, hxs⟩
    · subst h
      exact ⟨minStart_le_init _ _, maxLast_ge_init _ _⟩
    · have hb := (hall s hs).hbounds x hxs
      have h1 := minStart_le_mem (t :: os) r.ts s hs
      have h2 := maxLast_ge_mem (t :: os) r.ts s hs
      show minStart (t :: os) r.ts ≤ x.ts ∧ x.ts ≤ maxLast (t :: os) r.ts
      omega
  · rcases minStart_attained (t :: os) r.ts with h | ⟨s, hs, h⟩
    · exact ⟨r, (merged_rows_mem timeout t os r r).mpr (Or.inl rfl), h.symm⟩
    · obtain ⟨m, hm, hmt⟩ := (hall s hs).hmin
      exact ⟨m, (merged_rows_mem timeout t os r m).mpr (Or.inr ⟨s, hs, hm⟩), by rw [hmt]; exact h.symm⟩
  · rcases maxLast_attained (t :: os) r.ts with h | ⟨s, hs, h⟩
    · exact ⟨r, (merged_rows_mem timeout t os r r).mpr (Or.inl rfl), h.symm⟩
    · obtain ⟨m, hm, hmt⟩ := (hall s hs).hmax
      exact ⟨m, (merged_rows_mem timeout t os r m).mpr (Or.inr ⟨s, hs, hm⟩), by rw [hmt]; exact h.symm⟩

def AllOk (w : SWin) : Prop := ∀ s ∈ w.sessions, SessOk w.timeout s

/-! ### fates -/

theorem fate_late (w : SWin) (k : Key) (r : Row) (now : Int) (hl : lateNow w r now = true) :
    (∃ t, fate w k r now = .lateAbsorb t) ∨ fate w k r now = .lateDrop := by
  unfold fate
  rw [if_pos hl]
  split
  · unfold lateFate; split
    · exact Or.inl ⟨_, rfl⟩
    · exact Or.inr rfl
  · exact Or.inr rfl

theorem fate_ontime (w : SWin) (k : Key) (r : Row) (now : Int) (hl : lateNow w r now = false) :
    (fate w k r now = .create ∧ touched w k r = []) ∨
    (∃ t os, fate w k r now = .join t os ∧ touched w k r = t :: os) := by
  unfold fate
  rw [if_neg (by simp [hl])]
  unfold onTimeFate
  split
  · rename_i h; exact Or.inl ⟨rfl, h⟩
  · rename_i t os h; exact Or.inr ⟨t, os, rfl, h⟩

theorem fate_join_touched (w : SWin) (k : Key) (r : Row) (now : Int) (t : Sess) (os : List Sess)
    (h : fate w k r now = .join t os) : touched w k r = t :: os ∧ lateNow w r now = false := by
  by_cases hl : lateNow w r now = true
  · rcases fate_late w k r now hl with ⟨t', h'⟩ | h' <;> rw [h'] at h <;> cases h
  · have hl' : lateNow w r now = false := by simpa using hl
    rcases fate_ontime w k r now hl' with ⟨h', _⟩ | ⟨t', os', h', ht⟩
    · rw [h'] at h; cases h
    · rw [h'] at h; cases h; exact ⟨ht, hl'⟩

theorem fate_create_touched (w : SWin) (k : Key) (r : Row) (now : Int)
    (h : fate w k r now = .create) : touched w k r = [] ∧ lateNow w r now = false := by
  by_cases hl : lateNow w r now = true
  · rcases fate_late w k r now hl with ⟨t', h'⟩ | h' <;> rw [h'] at h <;> cases h
  · have hl' : lateNow w r now = false := by simpa using hl
    rcases fate_ontime w k r now hl' with ⟨_, ht⟩ | ⟨t', os', h', _⟩
    · exact ⟨ht, hl'⟩
    · rw [h'] at h; cases h

theorem allOk_add (w : SWin) (k : Key) (r : Row) (now : Int) (h : AllOk w) : AllOk (stepAdd w k r now).1 := by
  intro s hs
  have hs' : s ∈ addSessions w k r now := hs
  show SessOk w.timeout s
  unfold addSessions at hs'
  split at hs'
  · simp only [List.mem_append, List.mem_singleton] at hs'
    rcases hs' with hs' | hs'
    · exact h s hs'
    · subst hs'; exact newSess_ok k r w.timeout _
  · rename_i t os hf
    simp only [List.mem_append, List.mem_singleton, List.mem_filter] at hs'
    rcases hs' with hs' | hs'
    · exact h s hs'.1
    · subst hs'
      have ht := (fate_join_touched w k r now t os hf).1
      apply merged_ok
      intro x hx
      have : x ∈ touched w k r := by rw [ht]; exact hx
      exact h x ((mem_touched w k r x).mp this).1
  · exact h s hs'

theorem allOk_expire (w : SWin) (x : Int) (h : AllOk w) : AllOk (stepExpire w x).1 := by
  intro s hs
  simp only [stepExpire, List.mem_filter] at hs
  exact h s hs.1

/-- every delivered session is well-shaped and the watermark value has passed its end -/
theorem expire_emissions (w : SWin) (x : Int) (h : AllOk w) (ht : 0 < w.timeout) :
    ∀ e ∈ (stepExpire w x).2, e.late = false ∧ e.rows ≠ [] ∧ e.stop ≤ x ∧
      (∀ r ∈ e.rows, e.start ≤ r.ts ∧ r.ts + w.timeout ≤ e.stop) ∧
      (∃ r ∈ e.rows, r.ts = e.start) ∧ (∃ r ∈ e.rows, r.ts + w.timeout = e.stop) := by
  intro e he
  simp only [stepExpire, List.mem_map] at he
  obtain ⟨s, hs, rfl⟩ := he
  rw [mem_sortSess, List.mem_filter] at hs
  have hok := h s hs.1
  refine ⟨rfl, hok.hne, ?_, ?_, hok.hmin, ?_⟩
  · have := hs.2
    simp only [expiredBy, Bool.or_eq_true, decide_eq_true_eq] at this
    have hst := hok.hstop
    rcases this with h1 | h1
    · exact h1
    · show s.stop ≤ x
      omega
  · intro r hr
    have := hok.hbounds r hr
    have hst := hok.hstop
    exact ⟨this.1, by show r.ts + w.timeout ≤ s.stop; omega⟩
  · obtain ⟨m, hm, hmt⟩ := hok.hmax
    exact ⟨m, hm, by show m.ts + w.timeout = s.stop; rw [hok.hstop, hmt]⟩

/-! ### conservation: every on-time row is in an open session or was delivered, exactly once -/

def openRows (w : SWin) : List Row := w.sessions.flatMap (·.rows)
def firstRows (es : List Emission) : List Row := (es.filter (fun e => !e.late)).flatMap (·.rows)

theorem count_flatMap_filter_split (l : List Sess) (p : Sess → Bool) (x : Row) :
    ((l.filter p).flatMap (·.rows)).count x + ((l.filter (fun s => !p s)).flatMap (·.rows)).count x
      = (l.flatMap (·.rows)).count x := by
  induction l with
  | nil => simp
  | cons a l ih =>
    by_cases hp : p a <;> simp [List.filter_cons, hp, List.flatMap_cons, List.count_append] <;> omega

theorem expire_conserve (w : SWin) (x : Int) (r : Row) :
    (openRows (stepExpire w x).1).count r + (firstRows (stepExpire w x).2).count r = (openRows w).count r := by
  simp only [stepExpire, openRows, firstRows]
  have h1 : ((sortSess (w.sessions.filter (expiredBy w x))).map
      (fun s => ({ late := false, key := s.key, start := s.start, stop := s.stop, rows := s.rows } : Emission))).filter (fun e => !e.late)
      = (sortSess (w.sessions.filter (expiredBy w x))).map
      (fun s => ({ late := false, key := s.key, start := s.start, stop := s.stop, rows := s.rows } : Emission)) := by
    apply List.filter_eq_self.mpr
    intro e he
    simp only [List.mem_map] at he
    obtain ⟨s, _, rfl⟩ := he
    rfl
  rw [h1, List.flatMap_map]
  have h2 : ((sortSess (w.sessions.filter (expiredBy w x))).flatMap (·.rows)).count r
      = ((w.sessions.filter (expiredBy w x)).flatMap (·.rows)).count r := by
    have hp := perm_sortSess (w.sessions.filter (expiredBy w x))
    exact (hp.flatMap_right _).count_eq r
  have := count_flatMap_filter_split w.sessions (expiredBy w x) r
  simp only at h2 ⊢
  omega

/-- an Add puts an on-time row into exactly one open session and leaves every other row where it is -/
theorem add_conserve (w : SWin) (k : Key) (r : Row) (now : Int) (x : Row) :
    (openRows (stepAdd w k r now).1).count x + (firstRows (stepAdd w k r now).2).count x
      = (openRows w).count x + (acceptedBy w (.add k r now)).count x := by
  show ((addSessions w k r now).flatMap (·.rows)).count x + (firstRows (addEmit w k r now)).count x
      = (openRows w).count x + (if lateNow w r now then [] else [r]).count x
  by_cases hl : lateNow w r now = true
  · rw [if_pos hl]
    rcases fate_late w k r now hl with ⟨t, hf⟩ | hf <;>
      simp [addSessions, addEmit, hf, openRows, firstRows]
  · have hl' : lateNow w r now = false := by simpa using hl
    rw [if_neg hl]
    rcases fate_ontime w k r now hl' with ⟨hf, _⟩ | ⟨t, os, hf, ht⟩
    · simp [addSessions, addEmit, hf, openRows, firstRows, newSess, List.flatMap_append, List.count_append]
    · simp only [addSessions, addEmit, hf, openRows, firstRows, List.filter_nil, List.flatMap_nil, List.count_nil,
        Nat.add_zero, List.flatMap_append, List.flatMap_cons, List.append_nil, List.count_append]
      have hm : (merged w.timeout t os r).rows = (touched w k r).flatMap (·.rows) ++ [r] := by
        rw [ht]; rfl
      rw [hm, List.count_append]
      have hp : ((touched w k r).flatMap (·.rows)).count x
          = ((w.sessions.filter (touches w.timeout k r.ts)).flatMap (·.rows)).count x :=
        ((perm_sortSess _).flatMap_right _).count_eq x
      rw [hp]
      have := count_flatMap_filter_split w.sessions (touches w.timeout k r.ts) x
      omega

end Session
