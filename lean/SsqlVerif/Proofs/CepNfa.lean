/-
Helper lemmas for C15: the Thompson construction of `Model/CepNfa` accepts exactly `Spec.Lang`.

`PathN T n i w e` — an `n`-step path from state `i` to state `e` in table `T` reading `w`.
`FragOK f sz d L` — the fragment builder `f` appends exactly `sz` states, none accepting; in
every table that extends the fragment's table, every word of `L` labels a path from the
fragment's start to its target, and every path from the start that ends outside the
fragment's states passes through the target after reading a word of `L`, at least `d` steps
before its end (`d ≥ 1` is what makes the induction for `starF` go through).
Core Lean only.
-/
import SsqlVerif.Model.CepNfa
import SsqlVerif.Spec.Cep
set_option autoImplicit false
set_option linter.unusedVariables false
set_option linter.unusedSimpArgs false

namespace Cep
open Spec

/-! ### paths -/

def EpsStep (T : Tbl) (i j : Nat) : Prop := ∃ a b, T[i]? = some (Node.eps a b) ∧ (a = some j ∨ b = some j)

inductive PathN (T : Tbl) : Nat → Nat → List Sym → Nat → Prop
  | refl (i : Nat) : PathN T 0 i [] i
  | eps {n i j e : Nat} {w : List Sym} : EpsStep T i j → PathN T n j w e → PathN T (n+1) i w e
  | mtch {n i j e : Nat} {c : Sym} {w : List Sym} : T[i]? = some (Node.mtch c j) → PathN T n j w e → PathN T (n+1) i (c :: w) e

theorem PathN.trans {T : Tbl} {n m i j e : Nat} {u v : List Sym}
    (h1 : PathN T n i u j) (h2 : PathN T m j v e) : PathN T (n + m) i (u ++ v) e := by
  induction h1 with
  | refl i => simpa using h2
  | eps hs _ ih =>
    have := PathN.eps hs (ih h2)
    simpa [Nat.add_right_comm] using this
  | mtch hs _ ih =>
    have := PathN.mtch hs (ih h2)
    simpa [Nat.add_right_comm] using this

/-- `T` extends `t` (the table only grows by appending) -/
def Ext (t T : Tbl) : Prop := ∃ r, T = t ++ r

theorem Ext.refl (t : Tbl) : Ext t t := ⟨[], by simp⟩
theorem Ext.trans {a b c : Tbl} (h1 : Ext a b) (h2 : Ext b c) : Ext a c := by
  obtain ⟨r1, rfl⟩ := h1; obtain ⟨r2, rfl⟩ := h2; exact ⟨r1 ++ r2, by simp⟩
theorem Ext.append (t r : Tbl) : Ext t (t ++ r) := ⟨r, rfl⟩
theorem Ext.get {t T : Tbl} (h : Ext t T) {i : Nat} (hi : i < t.length) : T[i]? = t[i]? := by
  obtain ⟨r, rfl⟩ := h; exact List.getElem?_append_left hi
theorem Ext.len {t T : Tbl} (h : Ext t T) : t.length ≤ T.length := by
  obtain ⟨r, rfl⟩ := h; simp

/-- last appended entry -/
theorem get_snoc (t : Tbl) (x : Node) : (t ++ [x])[t.length]? = some x := by simp

theorem Ext.get_snoc {t T : Tbl} {x : Node} (h : Ext (t ++ [x]) T) : T[t.length]? = some x := by
  rw [h.get (by simp)]; simp

/-! ### fragment correctness -/

structure FragOK (f : Frag) (sz d : Nat) (L : List Sym → Prop) : Prop where
  len : ∀ k t, (f k t).2.length = t.length + sz
  ext : ∀ k t, Ext t (f k t).2
  noacc : ∀ k t i, t.length ≤ i → (f k t).2[i]? ≠ some Node.accept
  sound : ∀ k t T, Ext (f k t).2 T → ∀ w, L w → ∃ n, PathN T n (f k t).1 w k
  complete : ∀ k t T, Ext (f k t).2 T → ∀ n w e, PathN T n (f k t).1 w e →
      (e < t.length ∨ t.length + sz ≤ e) →
      ∃ w1 w2 m, w = w1 ++ w2 ∧ L w1 ∧ PathN T m k w2 e ∧ m + d ≤ n

theorem FragOK.weaken {f : Frag} {sz d d' : Nat} {L : List Sym → Prop} (h : FragOK f sz d L) (hd : d' ≤ d) :
    FragOK f sz d' L :=
  { len := h.len, ext := h.ext, noacc := h.noacc, sound := h.sound,
    complete := fun k t T hT n w e hp he => by
      obtain ⟨w1, w2, m, h1, h2, h3, h4⟩ := h.complete k t T hT n w e hp he
      exact ⟨w1, w2, m, h1, h2, h3, by omega⟩ }

theorem FragOK.congrL {f : Frag} {sz d : Nat} {L L' : List Sym → Prop} (h : FragOK f sz d L)
    (hL : ∀ w, L w ↔ L' w) : FragOK f sz d L' :=
  { len := h.len, ext := h.ext, noacc := h.noacc,
    sound := fun k t T hT w hw => h.sound k t T hT w ((hL w).2 hw),
    complete := fun k t T hT n w e hp he => by
      obtain ⟨w1, w2, m, h1, h2, h3, h4⟩ := h.complete k t T hT n w e hp he
      exact ⟨w1, w2, m, h1, (hL w1).1 h2, h3, h4⟩ }

/-- a path of positive length out of a state; case split on the first step -/
theorem PathN.cases_zero {T : Tbl} {i e : Nat} {w : List Sym} (h : PathN T 0 i w e) : w = [] ∧ e = i := by
  cases h; exact ⟨rfl, rfl⟩

theorem litF_ok (a : Sym) : FragOK (litF a) 1 1 (fun w => w = [a]) where
  len k t := by simp [litF]
  ext k t := Ext.append _ _
  noacc k t i hi := by
    simp only [litF]
    by_cases h : i = t.length
    · subst h; simp
    · rw [List.getElem?_eq_none (by simp; omega)]; simp
  sound k t T hT w hw := by
    subst hw
    refine ⟨1, PathN.mtch (j := k) ?_ (PathN.refl k)⟩
    simpa [litF] using hT.get_snoc
  complete k t T hT n w e hp he := by
    have hnode : T[t.length]? = some (Node.mtch a k) := by simpa [litF] using hT.get_snoc
    simp only [litF] at hp
    cases hp with
    | refl => omega
    | eps hs _ =>
      obtain ⟨x, y, hx, _⟩ := hs
      rw [hnode] at hx; cases hx
    | mtch hs hrest =>
      rw [hnode] at hs
      cases hs
      exact ⟨[a], _, _, rfl, rfl, hrest, by omega⟩

theorem epsF_ok : FragOK epsF 1 1 (fun w => w = []) where
  len k t := by simp [epsF]
  ext k t := Ext.append _ _
  noacc k t i hi := by
    simp only [epsF]
    by_cases h : i = t.length
    · subst h; simp
    · rw [List.getElem?_eq_none (by simp; omega)]; simp
  sound k t T hT w hw := by
    subst hw
    refine ⟨1, PathN.eps (j := k) ⟨some k, none, ?_, Or.inl rfl⟩ (PathN.refl k)⟩
    simpa [epsF] using hT.get_snoc
  complete k t T hT n w e hp he := by
    have hnode : T[t.length]? = some (Node.eps (some k) none) := by simpa [epsF] using hT.get_snoc
    simp only [epsF] at hp
    cases hp with
    | refl => omega
    | eps hs hrest =>
      obtain ⟨x, y, hx, hor⟩ := hs
      rw [hnode] at hx
      cases hx
      rcases hor with h | h
      · cases h
        exact ⟨[], _, _, rfl, rfl, hrest, by omega⟩
      · cases h
    | mtch hs _ => rw [hnode] at hs; cases hs

theorem seqF_ok {f g : Frag} {sf sg df dg : Nat} {Lf Lg : List Sym → Prop}
    (hf : FragOK f sf df Lf) (hg : FragOK g sg dg Lg) :
    FragOK (seqF f g) (sf + sg) (df + dg) (fun w => ∃ u v, w = u ++ v ∧ Lf u ∧ Lg v) where
  len k t := by simp only [seqF]; rw [hf.len, hg.len]; omega
  ext k t := (hg.ext k t).trans (hf.ext _ _)
  noacc k t i hi := by
    simp only [seqF]
    by_cases h : i < (g k t).2.length
    · rw [(hf.ext (g k t).1 (g k t).2).get h]; exact hg.noacc k t i hi
    · exact hf.noacc _ _ i (by omega)
  sound k t T hT w hw := by
    obtain ⟨u, v, rfl, hu, hv⟩ := hw
    simp only [seqF] at hT ⊢
    obtain ⟨n1, p1⟩ := hf.sound _ _ T hT u hu
    obtain ⟨n2, p2⟩ := hg.sound k t T ((hf.ext _ _).trans hT) v hv
    exact ⟨_, p1.trans p2⟩
  complete k t T hT n w e hp he := by
    simp only [seqF] at hT hp
    have hgl := hg.len k t
    obtain ⟨w1, w', m, rfl, h1, p1, hm⟩ := hf.complete _ _ T hT n w e hp (by omega)
    obtain ⟨w2, w3, m', rfl, h2, p2, hm'⟩ := hg.complete k t T ((hf.ext _ _).trans hT) m w' e p1 (by omega)
    exact ⟨w1 ++ w2, w3, m', by simp, ⟨w1, w2, rfl, h1, h2⟩, p2, by omega⟩

theorem altF_ok {f g : Frag} {sf sg df dg : Nat} {Lf Lg : List Sym → Prop}
    (hf : FragOK f sf df Lf) (hg : FragOK g sg dg Lg) :
    FragOK (altF f g) (sf + sg + 1) 1 (fun w => Lf w ∨ Lg w) where
  len k t := by simp only [altF, List.length_append, List.length_singleton]; rw [hg.len, hf.len]; omega
  ext k t := ((hf.ext k t).trans (hg.ext _ _)).trans (Ext.append _ _)
  noacc k t i hi := by
    simp only [altF]
    have hfl := hf.len k t
    have hgl := hg.len k (f k t).2
    by_cases h1 : i < (f k t).2.length
    · rw [((hg.ext k (f k t).2).trans (Ext.append _ _)).get h1]; exact hf.noacc k t i hi
    · by_cases h2 : i < (g k (f k t).2).2.length
      · rw [(Ext.append _ _).get h2]; exact hg.noacc _ _ i (by omega)
      · by_cases h3 : i = (g k (f k t).2).2.length
        · subst h3; simp
        · rw [List.getElem?_eq_none (by simp; omega)]; simp
  sound k t T hT w hw := by
    simp only [altF] at hT ⊢
    have hnode := hT.get_snoc
    have hT2 : Ext (g k (f k t).2).2 T := (Ext.append _ _).trans hT
    rcases hw with hw | hw
    · obtain ⟨n, p⟩ := hf.sound k t T ((hg.ext _ _).trans hT2) w hw
      exact ⟨n+1, PathN.eps ⟨_, _, hnode, Or.inl rfl⟩ p⟩
    · obtain ⟨n, p⟩ := hg.sound k _ T hT2 w hw
      exact ⟨n+1, PathN.eps ⟨_, _, hnode, Or.inr rfl⟩ p⟩
  complete k t T hT n w e hp he := by
    simp only [altF] at hT hp
    have hnode := hT.get_snoc
    have hT2 : Ext (g k (f k t).2).2 T := (Ext.append _ _).trans hT
    have hfl := hf.len k t
    have hgl := hg.len k (f k t).2
    cases hp with
    | refl => omega
    | eps hs hrest =>
      obtain ⟨x, y, hx, hor⟩ := hs
      rw [hnode] at hx
      cases hx
      rcases hor with h | h
      · cases h
        obtain ⟨w1, w2, m, h1, h2, h3, h4⟩ := hf.complete k t T ((hg.ext _ _).trans hT2) _ w e hrest (by omega)
        exact ⟨w1, w2, m, h1, Or.inl h2, h3, by omega⟩
      · cases h
        obtain ⟨w1, w2, m, h1, h2, h3, h4⟩ := hg.complete k _ T hT2 _ w e hrest (by omega)
        exact ⟨w1, w2, m, h1, Or.inr h2, h3, by omega⟩
    | mtch hs _ => rw [hnode] at hs; cases hs

theorem optF_ok {f : Frag} {sf df : Nat} {Lf : List Sym → Prop} (hf : FragOK f sf df Lf) :
    FragOK (optF f) (sf + 1) 1 (fun w => w = [] ∨ Lf w) where
  len k t := by simp only [optF, List.length_append, List.length_singleton]; rw [hf.len]; omega
  ext k t := (hf.ext k t).trans (Ext.append _ _)
  noacc k t i hi := by
    simp only [optF]
    have hfl := hf.len k t
    by_cases h1 : i < (f k t).2.length
    · rw [(Ext.append _ _).get h1]; exact hf.noacc k t i hi
    · by_cases h3 : i = (f k t).2.length
      · subst h3; simp
      · rw [List.getElem?_eq_none (by simp; omega)]; simp
  sound k t T hT w hw := by
    simp only [optF] at hT ⊢
    have hnode := hT.get_snoc
    rcases hw with hw | hw
    · subst hw
      exact ⟨1, PathN.eps ⟨_, _, hnode, Or.inr rfl⟩ (PathN.refl k)⟩
    · obtain ⟨n, p⟩ := hf.sound k t T ((Ext.append _ _).trans hT) w hw
      exact ⟨n+1, PathN.eps ⟨_, _, hnode, Or.inl rfl⟩ p⟩
  complete k t T hT n w e hp he := by
    simp only [optF] at hT hp
    have hnode := hT.get_snoc
    have hfl := hf.len k t
    cases hp with
    | refl => omega
    | eps hs hrest =>
      obtain ⟨x, y, hx, hor⟩ := hs
      rw [hnode] at hx
      cases hx
      rcases hor with h | h
      · cases h
        obtain ⟨w1, w2, m, h1, h2, h3, h4⟩ := hf.complete k t T ((Ext.append _ _).trans hT) _ w e hrest (by omega)
        exact ⟨w1, w2, m, h1, Or.inr h2, h3, by omega⟩
      · cases h
        exact ⟨[], w, _, rfl, Or.inl rfl, hrest, by omega⟩
    | mtch hs _ => rw [hnode] at hs; cases hs

/-- Kleene star of a language as "some power" -/
def StarL (L : List Sym → Prop) (w : List Sym) : Prop := ∃ n, Pow L n w

theorem StarL.nil (L : List Sym → Prop) : StarL L [] := ⟨0, rfl⟩
theorem StarL.cons {L : List Sym → Prop} {u v : List Sym} (hu : L u) (hv : StarL L v) : StarL L (u ++ v) := by
  obtain ⟨n, hn⟩ := hv; exact ⟨n+1, u, v, rfl, hu, hn⟩

theorem starF_ok {f : Frag} {sf df : Nat} {Lf : List Sym → Prop} (hf : FragOK f sf (df+1) Lf) :
    FragOK (starF f sf) (sf + 1) 1 (StarL Lf) where
  len k t := by simp only [starF, List.length_append, List.length_singleton]; rw [hf.len]; omega
  ext k t := (hf.ext _ t).trans (Ext.append _ _)
  noacc k t i hi := by
    simp only [starF]
    have hfl := hf.len (t.length + sf) t
    by_cases h1 : i < (f (t.length + sf) t).2.length
    · rw [(Ext.append _ _).get h1]; exact hf.noacc _ t i hi
    · by_cases h3 : i = (f (t.length + sf) t).2.length
      · subst h3; simp
      · rw [List.getElem?_eq_none (by simp; omega)]; simp
  sound k t T hT w hw := by
    simp only [starF] at hT ⊢
    have hfl := hf.len (t.length + sf) t
    have hnode : T[t.length + sf]? = some (Node.eps (some (f (t.length + sf) t).1) (some k)) := by
      have := hT.get_snoc; rwa [hfl] at this
    obtain ⟨n, hn⟩ := hw
    induction n generalizing w with
    | zero =>
      cases hn
      exact ⟨1, PathN.eps ⟨_, _, hnode, Or.inr rfl⟩ (PathN.refl k)⟩
    | succ n ih =>
      obtain ⟨u, v, rfl, hu, hv⟩ := hn
      obtain ⟨n1, p1⟩ := hf.sound (t.length + sf) t T ((Ext.append _ _).trans hT) u hu
      obtain ⟨n2, p2⟩ := ih v hv
      exact ⟨_, PathN.eps ⟨_, _, hnode, Or.inl rfl⟩ (p1.trans p2)⟩
  complete k t T hT n w e hp he := by
    simp only [starF] at hT hp
    have hfl := hf.len (t.length + sf) t
    have hnode : T[t.length + sf]? = some (Node.eps (some (f (t.length + sf) t).1) (some k)) := by
      have := hT.get_snoc; rwa [hfl] at this
    induction n using Nat.strongRecOn generalizing w with
    | _ n ih =>
      cases hp with
      | refl => omega
      | eps hs hrest =>
        obtain ⟨x, y, hx, hor⟩ := hs
        rw [hnode] at hx
        cases hx
        rcases hor with h | h
        · cases h
          obtain ⟨u, v, m, rfl, hu, pm, hm⟩ :=
            hf.complete (t.length + sf) t T ((Ext.append _ _).trans hT) _ w e hrest (by omega)
          obtain ⟨v1, v2, m', rfl, hv1, pm', hm'⟩ := ih m (by omega) v pm
          exact ⟨u ++ v1, v2, m', by simp, StarL.cons hu hv1, pm', by omega⟩
        · cases h
          exact ⟨[], w, _, rfl, StarL.nil _, hrest, by omega⟩
      | mtch hs _ => rw [hnode] at hs; cases hs

theorem iterF_ok {f : Frag} {sf df : Nat} {Lf : List Sym → Prop} (hf : FragOK f sf df Lf) (n : Nat) :
    FragOK (iterF f n) (n * sf) (n * df) (Pow Lf n) := by
  induction n with
  | zero =>
    exact
      { len := fun k t => by simp [iterF]
        ext := fun k t => Ext.refl _
        noacc := fun k t i hi => by
          simp only [iterF]; rw [List.getElem?_eq_none (by omega)]; simp
        sound := fun k t T hT w hw => by cases hw; exact ⟨0, PathN.refl k⟩
        complete := fun k t T hT n w e hp he => ⟨[], w, n, rfl, rfl, hp, by omega⟩ }
  | succ n ih =>
    have h := seqF_ok hf ih
    have heq : iterF f (n+1) = seqF f (iterF f n) := by funext k t; simp [iterF, seqF]
    rw [heq]
    have hsz : (n + 1) * sf = sf + n * sf := by rw [Nat.succ_mul]; omega
    have hd : (n + 1) * df = df + n * df := by rw [Nat.succ_mul]; omega
    rw [hsz, hd]
    exact h.congrL (fun w => Iff.rfl)

/-! ### the whole construction -/

/-- language of `rep` in terms of powers, as used by `Lang` -/
theorem pow_add {L : List Sym → Prop} {a b : Nat} {w : List Sym} :
    Pow L (a + b) w ↔ ∃ u v, w = u ++ v ∧ Pow L a u ∧ Pow L b v := by
  induction a generalizing w with
  | zero =>
    constructor
    · intro h; exact ⟨[], w, rfl, rfl, by simpa using h⟩
    · rintro ⟨u, v, rfl, hu, hv⟩; cases hu; simpa using hv
  | succ a ih =>
    rw [Nat.succ_add]
    constructor
    · rintro ⟨x, y, rfl, hx, hy⟩
      obtain ⟨u, v, rfl, hu, hv⟩ := ih.1 hy
      exact ⟨x ++ u, v, by simp, ⟨x, u, rfl, hx, hu⟩, hv⟩
    · rintro ⟨u, v, rfl, ⟨x, y, rfl, hx, hy⟩, hv⟩
      exact ⟨x, y ++ v, by simp, hx, ih.2 ⟨y, v, rfl, hy, hv⟩⟩

/-- powers of `ε ∪ L` -/
theorem pow_opt {L : List Sym → Prop} {n : Nat} {w : List Sym} :
    Pow (fun w => w = [] ∨ L w) n w ↔ ∃ j, j ≤ n ∧ Pow L j w := by
  induction n generalizing w with
  | zero =>
    constructor
    · intro h; exact ⟨0, Nat.le_refl _, h⟩
    · rintro ⟨j, hj, h⟩
      have : j = 0 := by omega
      subst this; exact h
  | succ n ih =>
    constructor
    · rintro ⟨u, v, rfl, hu, hv⟩
      obtain ⟨j, hj, hp⟩ := ih.1 hv
      rcases hu with rfl | hu
      · exact ⟨j, by omega, by simpa using hp⟩
      · exact ⟨j+1, by omega, u, v, rfl, hu, hp⟩
    · rintro ⟨j, hj, h⟩
      by_cases hjn : j ≤ n
      · exact ⟨[], w, rfl, Or.inl rfl, ih.2 ⟨j, hjn, h⟩⟩
      · have : j = n + 1 := by omega
        subst this
        obtain ⟨u, v, rfl, hu, hv⟩ := h
        exact ⟨u, v, rfl, Or.inr hu, ih.2 ⟨n, Nat.le_refl _, hv⟩⟩

/-- quantifier bounds are consistent (`Compile` rejects `max < min`) -/
def Pat.valid : Pat → Prop
  | .lit _ => True
  | .empty => True
  | .seq p q => p.valid ∧ q.valid
  | .alt p q => p.valid ∧ q.valid
  | .rep p mn none => p.valid
  | .rep p mn (some mx) => p.valid ∧ mn ≤ mx

theorem frag_ok : ∀ (p : Pat), p.valid → FragOK (frag p) (size p) 1 (Lang p)
  | .lit a, _ => by simpa [frag, size, Lang] using litF_ok a
  | .empty, _ => by simpa [frag, size, Lang] using epsF_ok
  | .seq p q, hv => by
    have h := seqF_ok (frag_ok p hv.1) (frag_ok q hv.2)
    simpa [frag, size, Lang] using h.weaken (by omega : 1 ≤ 1 + 1)
  | .alt p q, hv => by
    have h := altF_ok (frag_ok p hv.1) (frag_ok q hv.2)
    simpa [frag, size, Lang] using h
  | .rep p mn none, hv => by
    have hp := frag_ok p hv
    have h := seqF_ok (iterF_ok hp mn) (starF_ok (df := 0) hp)
    simp only [frag, size]
    refine (h.weaken (by omega)).congrL (fun w => ?_)
    simp only [Lang]
    constructor
    · rintro ⟨u, v, rfl, hu, ⟨j, hj⟩⟩
      exact ⟨mn + j, by omega, (by intro m hm; cases hm), pow_add.2 ⟨u, v, rfl, hu, hj⟩⟩
    · rintro ⟨n, hn, _, hp⟩
      have : n = mn + (n - mn) := by omega
      rw [this] at hp
      obtain ⟨u, v, rfl, hu, hv⟩ := pow_add.1 hp
      exact ⟨u, v, rfl, hu, ⟨_, hv⟩⟩
  | .rep p mn (some mx), hv => by
    have hp := frag_ok p hv.1
    have hle : mn ≤ mx := hv.2
    simp only [frag, size]
    by_cases h0 : mn = 0 ∧ mx = 0
    · rw [if_pos h0, if_pos h0]
      refine epsF_ok.congrL (fun w => ?_)
      simp only [Lang]
      obtain ⟨rfl, rfl⟩ := h0
      constructor
      · rintro rfl; exact ⟨0, Nat.le_refl _, (by intro m hm; cases hm; exact Nat.le_refl _), rfl⟩
      · rintro ⟨n, _, hm, hp⟩
        have : n = 0 := by have := hm 0 rfl; omega
        subst this; exact hp
    · rw [if_neg h0, if_neg h0]
      have h := seqF_ok (iterF_ok hp mn) (iterF_ok (optF_ok hp) (mx - mn))
      refine (h.weaken (by simp only [Nat.mul_one]; omega)).congrL (fun w => ?_)
      simp only [Lang]
      constructor
      · rintro ⟨u, v, rfl, hu, hv⟩
        obtain ⟨j, hj, hpj⟩ := pow_opt.1 hv
        exact ⟨mn + j, by omega, (by intro m hm; cases hm; omega), pow_add.2 ⟨u, v, rfl, hu, hpj⟩⟩
      · rintro ⟨n, hn, hm, hpn⟩
        have hnm := hm mx rfl
        have : n = mn + (n - mn) := by omega
        rw [this] at hpn
        obtain ⟨u, v, rfl, hu, hv⟩ := pow_add.1 hpn
        exact ⟨u, v, rfl, hu, pow_opt.2 ⟨n - mn, by omega, hv⟩⟩
termination_by p => sizeOf p

end Cep

namespace Cep
open Spec

/-! ### the compiled automaton -/

/-- `w` labels a path from the start state to the accept state -/
def Accepts (n : NFA) (w : List Sym) : Prop := ∃ k, PathN n.tbl k n.start w acceptIdx

theorem compile_tbl_zero (p : Pat) (hv : p.valid) : (compile p).tbl[0]? = some Node.accept := by
  have h := (frag_ok p hv).ext acceptIdx [Node.accept]
  simp only [compile]
  rw [h.get (by simp)]; rfl

/-- the accept state is entry 0 and no other entry is accepting -/
theorem compile_accept_iff (p : Pat) (hv : p.valid) (i : Nat) :
    isAcceptAt (compile p).tbl i = true ↔ i = 0 := by
  constructor
  · intro h
    by_cases hi : i = 0
    · exact hi
    · exfalso
      have hna := (frag_ok p hv).noacc acceptIdx [Node.accept] i (by simp; omega)
      unfold isAcceptAt at h
      cases hget : (compile p).tbl[i]? with
      | none => rw [hget] at h; cases h
      | some nd =>
        rw [hget] at h
        cases nd with
        | accept => exact hna hget
        | eps a b => cases h
        | mtch a o => cases h
  · rintro rfl
    simp [isAcceptAt, compile_tbl_zero p hv]

/-- no step leaves the accept state -/
theorem path_from_accept {T : Tbl} (h0 : T[0]? = some Node.accept) {n e : Nat} {w : List Sym}
    (hp : PathN T n 0 w e) : w = [] ∧ e = 0 := by
  cases hp with
  | refl => exact ⟨rfl, rfl⟩
  | eps hs _ => obtain ⟨a, b, hx, _⟩ := hs; rw [h0] at hx; cases hx
  | mtch hs _ => rw [h0] at hs; cases hs

theorem compile_accepts_iff (p : Pat) (hv : p.valid) (w : List Sym) :
    Accepts (compile p) w ↔ Lang p w := by
  have hok := frag_ok p hv
  constructor
  · rintro ⟨n, hp⟩
    simp only [compile] at hp
    obtain ⟨w1, w2, m, rfl, hl, hp2, _⟩ :=
      hok.complete acceptIdx [Node.accept] _ (Ext.refl _) n w acceptIdx hp (Or.inl (by simp [acceptIdx]))
    have h0 : (frag p acceptIdx [Node.accept]).2[0]? = some Node.accept := compile_tbl_zero p hv
    obtain ⟨rfl, _⟩ := path_from_accept h0 hp2
    simpa using hl
  · intro hl
    obtain ⟨n, hp⟩ := hok.sound acceptIdx [Node.accept] _ (Ext.refl _) w hl
    exact ⟨n, hp⟩

/-! ### ε-closure: everything in the closure is ε-reachable -/

theorem PathN.snoc_eps {T : Tbl} {n i j e : Nat} {w : List Sym} (hp : PathN T n i w j) (hs : EpsStep T j e) :
    PathN T (n + 1) i w e := by
  have := hp.trans (PathN.eps hs (PathN.refl e))
  simpa using this

def Reach (T : Tbl) (i q : Nat) : Prop := ∃ n, PathN T n i [] q

theorem pushNew_seen {o : Option Nat} {acc : List Nat × List Nat} {x : Nat}
    (hx : x ∈ (pushNew o acc).1) : x ∈ acc.1 ∨ o = some x := by
  unfold pushNew at hx
  cases o with
  | none => exact Or.inl hx
  | some j =>
    simp only at hx
    split at hx
    · exact Or.inl hx
    · simp only [List.mem_append, List.mem_singleton] at hx
      rcases hx with h | h
      · exact Or.inl h
      · exact Or.inr (by rw [h])

theorem pushNew_stack {o : Option Nat} {acc : List Nat × List Nat} {x : Nat}
    (hx : x ∈ (pushNew o acc).2) : x ∈ acc.2 ∨ o = some x := by
  unfold pushNew at hx
  cases o with
  | none => exact Or.inl hx
  | some j =>
    simp only at hx
    split at hx
    · exact Or.inl hx
    · simp only [List.mem_cons] at hx
      rcases hx with h | h
      · exact Or.inr (by rw [h])
      · exact Or.inl h

theorem closureLoop_sound (T : Tbl) (i : Nat) :
    ∀ (fuel : Nat) (stack seen : List Nat), (∀ x ∈ seen, Reach T i x) → (∀ x ∈ stack, Reach T i x) →
      ∀ q ∈ closureLoop T fuel stack seen, Reach T i q := by
  intro fuel
  induction fuel with
  | zero => intro stack seen hs _ q hq; simpa [closureLoop] using hs q (by simpa [closureLoop] using hq)
  | succ f ih =>
    intro stack seen hs hst q hq
    cases stack with
    | nil => exact hs q (by simpa [closureLoop] using hq)
    | cons s st =>
      have hrs : Reach T i s := hst s (List.mem_cons_self ..)
      have hst' : ∀ x ∈ st, Reach T i x := fun x hx => hst x (List.mem_cons_of_mem _ hx)
      unfold closureLoop at hq
      split at hq
      · next a b hnode =>
        have hstep : ∀ x, (a = some x ∨ b = some x) → Reach T i x := by
          intro x hx
          obtain ⟨n, hp⟩ := hrs
          exact ⟨n+1, hp.snoc_eps ⟨a, b, hnode, hx⟩⟩
        refine ih _ _ ?_ ?_ q hq
        · intro x hx
          rcases pushNew_seen hx with h | h
          · rcases pushNew_seen h with h' | h'
            · exact hs x h'
            · exact hstep x (Or.inl h')
          · exact hstep x (Or.inr h)
        · intro x hx
          rcases pushNew_stack hx with h | h
          · rcases pushNew_stack h with h' | h'
            · exact hst' x h'
            · exact hstep x (Or.inl h')
          · exact hstep x (Or.inr h)
      · exact ih _ _ hs hst' q hq

theorem closure_sound (T : Tbl) (i q : Nat) (hq : q ∈ closure T i) : Reach T i q := by
  refine closureLoop_sound T i _ [i] [i] ?_ ?_ q hq <;>
  · intro x hx
    simp only [List.mem_singleton] at hx
    subst hx
    exact ⟨0, PathN.refl _⟩

end Cep

namespace Cep

/-! ### `lower` only produces trees with consistent quantifier bounds -/

theorem seqOf_valid : ∀ (ps : List Pat), (∀ p ∈ ps, p.valid) → (seqOf ps).valid
  | [], _ => trivial
  | [p], h => h p (List.mem_singleton.2 rfl)
  | p :: q :: ps, h => by
    simp only [seqOf, Pat.valid]
    exact ⟨h p (List.mem_cons_self ..), seqOf_valid (q :: ps) (fun x hx => h x (List.mem_cons_of_mem _ hx))⟩

theorem altFold_valid : ∀ (ps : List Pat) (acc : Pat), acc.valid → (∀ p ∈ ps, p.valid) → (altFold acc ps).valid
  | [], acc, ha, _ => ha
  | p :: ps, acc, ha, h => by
    simp only [altFold]
    exact altFold_valid ps _ ⟨ha, h p (List.mem_cons_self ..)⟩ (fun x hx => h x (List.mem_cons_of_mem _ hx))

theorem altOf_valid : ∀ (ps : List Pat), (∀ p ∈ ps, p.valid) → (altOf ps).valid
  | [], _ => trivial
  | p :: ps, h => altFold_valid ps p (h p (List.mem_cons_self ..)) (fun x hx => h x (List.mem_cons_of_mem _ hx))

theorem permAlt_valid (ps : List Pat) (h : ∀ p ∈ ps, p.valid) : (permAlt ps).valid := by
  unfold permAlt
  apply altOf_valid
  intro q hq
  obtain ⟨perm, _, rfl⟩ := List.mem_map.1 hq
  apply seqOf_valid
  intro x hx
  obtain ⟨i, _, rfl⟩ := List.mem_map.1 hx
  simp only [List.getD_eq_getElem?_getD]
  cases hget : ps[i]? with
  | none => simp [Pat.valid]
  | some y => simpa using h y (List.mem_of_getElem? hget)

theorem except_map_ok {ε α β : Type} {f : α → β} {x : Except ε α} {b : β} (h : x.map f = .ok b) :
    ∃ a, x = .ok a ∧ b = f a := by
  cases x with
  | error e => cases h
  | ok a => exact ⟨a, rfl, by cases h; rfl⟩

mutual
theorem lower_valid : ∀ (n : PNode) (p : Pat), lower n = .ok p → p.valid
  | .lit a, p, h => by simp only [lower] at h; cases h; trivial
  | .seq cs, p, h => by
    simp only [lower] at h
    obtain ⟨ps, hps, rfl⟩ := except_map_ok h
    exact seqOf_valid ps (lowerList_valid cs ps hps)
  | .alt cs, p, h => by
    simp only [lower] at h
    obtain ⟨ps, hps, rfl⟩ := except_map_ok h
    exact altOf_valid ps (lowerList_valid cs ps hps)
  | .group cs, p, h => by
    simp only [lower] at h
    exact lowerHead_valid cs p h
  | .rep c mn mx g, p, h => by
    simp only [lower] at h
    split at h
    · cases h
    · split at h
      · cases h; trivial
      · split at h
        · cases h
        · next q hq =>
          have hqv := lower_valid c q hq
          split at h
          · cases h; exact hqv
          · split at h
            · cases h
            · cases h
              refine ⟨hqv, ?_⟩
              omega
  | .permute cs, p, h => by
    simp only [lower] at h
    split at h
    · cases h
    · obtain ⟨ps, hps, rfl⟩ := except_map_ok h
      exact permAlt_valid ps (lowerList_valid cs ps hps)
  | .exclusion, p, h => by simp only [lower] at h; cases h
theorem lowerList_valid : ∀ (cs : List PNode) (ps : List Pat), lowerList cs = .ok ps → ∀ p ∈ ps, p.valid
  | [], ps, h => by simp only [lowerList] at h; cases h; intro p hp; cases hp
  | c :: cs, ps, h => by
    simp only [lowerList] at h
    split at h
    · next q qs hq hqs =>
      cases h
      intro p hp
      rcases List.mem_cons.1 hp with rfl | hp
      · exact lower_valid c _ hq
      · exact lowerList_valid cs qs hqs p hp
    · cases h
    · cases h
theorem lowerHead_valid : ∀ (cs : List PNode) (p : Pat), lowerHead cs = .ok p → p.valid
  | [], p, h => by simp only [lowerHead] at h; cases h; trivial
  | c :: _, p, h => by simp only [lowerHead] at h; exact lower_valid c p h
end

end Cep
