/-
Helper lemmas for C19 (ingest protocol), part 1: reachability, the counting form of
conservation (every emitted row is in exactly one place), uniqueness of row identities.
Core Lean only.
-/
import SsqlVerif.Model.Ingest
set_option autoImplicit false
set_option linter.unusedVariables false
set_option linter.unusedSimpArgs false

namespace Ingest

/-! ### reachable states: any interleaving of any number of steps -/

inductive Reach (c : Cfg) (n : Nat) : State → Prop where
  | init : Reach c n (init c n)
  | step {s s' : State} (t : Tid) (w : Wit) : Reach c n s → step c s t w = some s' → Reach c n s'

theorem run_reach (c : Cfg) (n : Nat) (sched : List (Tid × Wit)) :
    ∀ s, Reach c n s → Reach c n (run c s sched) := by
  induction sched with
  | nil => intro s h; exact h
  | cons x rest ih =>
    intro s h
    obtain ⟨t, w⟩ := x
    simp only [run]
    cases hs : step c s t w with
    | none => exact ih s h
    | some s' => exact ih s' (Reach.step t w h hs)

/-! ### where the rows are -/

/-- the row of the Emit call in progress -/
def flyRows (p : Prod) : List Row := p.cur.toList
/-- all rows producer `p` has handed to Emit so far -/
def entRows (p : Prod) : List Row := (List.range p.next).map (Row.mk p.id)

/-- every place a row can be: processed, counted as dropped, returned because the stream
stopped, buffered in some channel, or still inside its Emit call -/
def accounted (s : State) : List Row :=
  s.processed ++ s.dropped ++ s.exits ++ s.chans.flatMap (·.buf) ++ s.prods.flatMap flyRows

/-- every row handed to Emit -/
def entered (s : State) : List Row := s.prods.flatMap entRows

def fly (r : Row) (ps : List Prod) : Nat := List.count r (ps.flatMap flyRows)
def ent (r : Row) (ps : List Prod) : Nat := List.count r (ps.flatMap entRows)
def inCh (r : Row) (cs : List Chan) : Nat := List.count r (cs.flatMap (·.buf))
def tot (r : Row) (s : State) : Nat :=
  List.count r s.processed + List.count r s.dropped + List.count r s.exits + inCh r s.chans + fly r s.prods

theorem count_accounted (r : Row) (s : State) : List.count r (accounted s) = tot r s := by
  simp [accounted, tot, inCh, fly, List.count_append]; omega

theorem count_entered (r : Row) (s : State) : List.count r (entered s) = ent r s.prods := rfl

theorem count_flatMap_set {α β : Type} [DecidableEq β] (f : α → List β) (r : β) :
    ∀ (l : List α) (i : Nat) (a b : α), l[i]? = some a →
      List.count r ((l.set i b).flatMap f) + List.count r (f a) = List.count r (l.flatMap f) + List.count r (f b) := by
  intro l
  induction l with
  | nil => intro i a b h; simp at h
  | cons x xs ih =>
    intro i a b h
    cases i with
    | zero =>
      simp at h; subst h
      simp [List.flatMap_cons, List.count_append]; omega
    | succ k =>
      simp at h
      have := ih k a b h
      simp [List.flatMap_cons, List.count_append]; omega

theorem fly_set (r : Row) (ps : List Prod) (i : Nat) (a b : Prod) (h : ps[i]? = some a) :
    fly r (ps.set i b) + List.count r (flyRows a) = fly r ps + List.count r (flyRows b) :=
  count_flatMap_set flyRows r ps i a b h

theorem ent_set (r : Row) (ps : List Prod) (i : Nat) (a b : Prod) (h : ps[i]? = some a) :
    ent r (ps.set i b) + List.count r (entRows a) = ent r ps + List.count r (entRows b) :=
  count_flatMap_set entRows r ps i a b h

theorem inCh_set (r : Row) (cs : List Chan) (h : Nat) (a b : Chan) (hh : cs[h]? = some a) :
    inCh r (cs.set h b) + List.count r a.buf = inCh r cs + List.count r b.buf :=
  count_flatMap_set (fun x : Chan => x.buf) r cs h a b hh

theorem inCh_append_empty (r : Row) (cs : List Chan) (n : Nat) :
    inCh r (cs ++ [{ cap := n, buf := [] }]) = inCh r cs := by
  simp [inCh, List.flatMap_append]

/-! ### `Next.apply` -/

def Next.nonIdle : Next → Prop
  | .goto pc => pc ≠ .idle
  | _ => True

@[simp] theorem flyRows_idled (p : Prod) : flyRows (idled p) = [] := by simp [flyRows, idled]
@[simp] theorem entRows_idled (p : Prod) : entRows (idled p) = entRows p := by simp [entRows, idled]
@[simp] theorem flyRows_setpc (p : Prod) (pc : PC) : flyRows { p with pc := pc } = flyRows p := rfl
@[simp] theorem entRows_setpc (p : Prod) (pc : PC) : entRows { p with pc := pc } = entRows p := rfl

/-- `Next.apply` moves the row of `p` (if it leaves the producer) into `dropped`/`exits` -/
theorem tot_apply (r : Row) (s : State) (i : Nat) (p0 p : Prod) (nx : Next) (h : s.prods[i]? = some p0) :
    tot r (nx.apply s i p) + List.count r (flyRows p0) = tot r s + List.count r (flyRows p) := by
  cases nx with
  | goto pc =>
    have := fly_set r s.prods i p0 { p with pc := pc } h
    simp [Next.apply, tot] at this ⊢; omega
  | drop =>
    have := fly_set r s.prods i p0 (idled p) h
    simp [Next.apply, tot, List.count_append, flyRows, idled] at this ⊢; omega
  | exit =>
    have := fly_set r s.prods i p0 (idled p) h
    simp [Next.apply, tot, List.count_append, flyRows, idled] at this ⊢; omega

theorem ent_apply (r : Row) (s : State) (i : Nat) (p0 p : Prod) (nx : Next) (h : s.prods[i]? = some p0) :
    ent r (nx.apply s i p).prods + List.count r (entRows p0) = ent r s.prods + List.count r (entRows p) := by
  cases nx with
  | goto pc =>
    have := ent_set r s.prods i p0 { p with pc := pc } h
    simpa [Next.apply] using this
  | drop =>
    have := ent_set r s.prods i p0 (idled p) h
    simpa [Next.apply] using this
  | exit =>
    have := ent_set r s.prods i p0 (idled p) h
    simpa [Next.apply] using this

/-- counting form of conservation -/
def Cons (s : State) : Prop := ∀ r, tot r s = ent r s.prods

/-- outside Emit a producer carries no row -/
def IdleOk (s : State) : Prop := ∀ (i : Nat) (p : Prod), s.prods[i]? = some p → p.pc = .idle → p.cur = none

theorem cons_apply (s : State) (i : Nat) (p : Prod) (nx : Next) (h : s.prods[i]? = some p) (hc : Cons s) :
    Cons (nx.apply s i p) := by
  intro r
  have h1 := tot_apply r s i p p nx h
  have h2 := ent_apply r s i p p nx h
  have := hc r
  omega

theorem prods_apply (s : State) (i : Nat) (p : Prod) (nx : Next) :
    ∃ q, (nx.apply s i p).prods = s.prods.set i q ∧ (q.pc = .idle → q.cur = none ∨ ¬ nx.nonIdle) := by
  cases nx with
  | goto pc => exact ⟨{ p with pc := pc }, rfl, fun h => Or.inr (by simp [Next.nonIdle]; exact h)⟩
  | drop => exact ⟨idled p, rfl, fun _ => Or.inl rfl⟩
  | exit => exact ⟨idled p, rfl, fun _ => Or.inl rfl⟩

theorem idleOk_set (ps : List Prod) (i : Nat) (q : Prod)
    (h : ∀ (j : Nat) (p : Prod), ps[j]? = some p → p.pc = .idle → p.cur = none) (hq : q.pc = .idle → q.cur = none) :
    ∀ (j : Nat) (p : Prod), (ps.set i q)[j]? = some p → p.pc = .idle → p.cur = none := by
  intro j p hj
  rw [List.getElem?_set] at hj
  by_cases hij : i = j
  · simp [hij] at hj
    by_cases hl : j < ps.length
    · simp [hl] at hj; subst hj; exact hq
    · simp [hl] at hj
  · simp [hij] at hj; exact h j p hj

theorem idleOk_apply (s : State) (i : Nat) (p : Prod) (nx : Next) (hn : nx.nonIdle) (hi : IdleOk s) :
    IdleOk (nx.apply s i p) := by
  obtain ⟨q, hq, hq2⟩ := prods_apply s i p nx
  intro j p' hj
  rw [hq] at hj
  refine idleOk_set s.prods i q hi ?_ j p' hj
  intro h
  rcases hq2 h with h' | h'
  · exact h'
  · exact absurd hn h'

theorem afterFail_nonIdle (c : Cfg) (att : Nat) : (afterFail c att).nonIdle := by
  unfold afterFail
  split
  · simp [Next.nonIdle]
  · split
    · simp [Next.nonIdle]
    · split <;> simp [Next.nonIdle]
  · simp [Next.nonIdle]

theorem trySend_nonIdle (c : Cfg) (s : State) (att : Nat) : (trySend c s att).nonIdle := by
  unfold trySend
  split
  · exact afterFail_nonIdle c att
  · simp [Next.nonIdle]

theorem emitNext_nonIdle (c : Cfg) (s : State) : (emitNext c s).nonIdle := by
  unfold emitNext
  split
  · exact trySend_nonIdle c s 0
  · split <;> simp [Next.nonIdle]
  · split <;> simp [Next.nonIdle]

theorem dropTimer_nonIdle (k h : Nat) : (dropTimer k h).nonIdle := by
  unfold dropTimer; split <;> simp [Next.nonIdle]

end Ingest

namespace Ingest

/-! ### conservation is preserved by every step -/

def sumNext (ps : List Prod) : Nat := (ps.map (·.next)).sum

/-- `input_count` = number of Emit calls -/
def InOk (s : State) : Prop := s.input = sumNext s.prods

theorem sumNext_set (ps : List Prod) (i : Nat) (a b : Prod) (h : ps[i]? = some a) :
    sumNext (ps.set i b) + a.next = sumNext ps + b.next := by
  induction ps generalizing i with
  | nil => simp at h
  | cons x xs ih =>
    cases i with
    | zero => simp at h; subst h; simp [sumNext]; omega
    | succ k =>
      simp at h
      have := ih k h
      simp [sumNext] at this ⊢; omega

/-- the three facts carried together -/
def CI (s : State) : Prop := Cons s ∧ IdleOk s ∧ InOk s

theorem inok_apply (s : State) (i : Nat) (p0 p : Prod) (nx : Next) (h : s.prods[i]? = some p0) :
    sumNext (nx.apply s i p).prods + p0.next = sumNext s.prods + p.next ∧ (nx.apply s i p).input = s.input := by
  cases nx with
  | goto pc => exact ⟨sumNext_set s.prods i p0 { p with pc := pc } h, rfl⟩
  | drop => exact ⟨sumNext_set s.prods i p0 (idled p) h, rfl⟩
  | exit => exact ⟨sumNext_set s.prods i p0 (idled p) h, rfl⟩

theorem ci_apply (s : State) (i : Nat) (p : Prod) (nx : Next) (h : s.prods[i]? = some p)
    (hn : nx.nonIdle) (hc : CI s) : CI (nx.apply s i p) := by
  refine ⟨cons_apply s i p nx h hc.1, idleOk_apply s i p nx hn hc.2.1, ?_⟩
  have := inok_apply s i p p nx h
  have h3 := hc.2.2
  unfold InOk at *
  omega

/-- changing only control fields keeps `CI` -/
theorem ci_congr (s s' : State) (h1 : s'.prods = s.prods) (h2 : s'.chans = s.chans)
    (h3 : s'.processed = s.processed) (h4 : s'.dropped = s.dropped) (h5 : s'.exits = s.exits)
    (h6 : s'.input = s.input) (hc : CI s) : CI s' := by
  refine ⟨?_, ?_, ?_⟩
  · intro r; have := hc.1 r; simp [tot, h1, h2, h3, h4, h5] at this ⊢; exact this
  · intro i p hp; rw [h1] at hp; exact hc.2.1 i p hp
  · unfold InOk; rw [h6, h1]; exact hc.2.2

theorem ci_pushTo (s : State) (i : Nat) (p : Prod) (h : Nat) (s' : State) (hp : s.prods[i]? = some p)
    (hc : CI s) (hs : pushTo s i p h = some s') : CI s' := by
  unfold pushTo at hs
  split at hs
  · simp at hs
  · rename_i ch hch
    simp at hs; subst hs
    refine ⟨?_, ?_, ?_⟩
    · intro r
      have h1 := fly_set r s.prods i p (idled p) hp
      have h2 := inCh_set r s.chans h ch { ch with buf := ch.buf ++ p.cur.toList } hch
      have h3 := ent_set r s.prods i p (idled p) hp
      have := hc.1 r
      simp [tot, List.count_append, flyRows, idled, entRows] at *
      omega
    · exact idleOk_set s.prods i (idled p) hc.2.1 (fun _ => rfl)
    · have := sumNext_set s.prods i p (idled p) hp
      have h3 := hc.2.2
      simp [InOk, idled] at *
      omega

theorem ci_emit (c : Cfg) (s : State) (i : Nat) (p : Prod) (s' : State) (hp : s.prods[i]? = some p)
    (hpc : p.pc = .idle) (hc : CI s) (hs : doEmit c s i p = some s') : CI s' := by
  unfold doEmit at hs
  simp at hs; subst hs
  have hcur : p.cur = none := hc.2.1 i p hp hpc
  refine ⟨?_, ?_, ?_⟩
  · intro r
    have h1 := tot_apply r { s with input := s.input + 1 } i p (emitted p) (emitNext c s) hp
    have h2 := ent_apply r { s with input := s.input + 1 } i p (emitted p) (emitNext c s) hp
    have := hc.1 r
    have e1 : List.count r (flyRows p) = 0 := by simp [flyRows, hcur]
    have e2 : List.count r (entRows (emitted p)) = List.count r (entRows p) + List.count r (flyRows (emitted p)) := by
      simp [entRows, emitted, flyRows, List.range_succ, List.count_append]
    simp [tot] at *
    omega
  · exact idleOk_apply _ i (emitted p) (emitNext c s) (emitNext_nonIdle c s) hc.2.1
  · have := inok_apply { s with input := s.input + 1 } i p (emitted p) (emitNext c s) hp
    have h3 := hc.2.2
    simp [InOk, emitted] at *
    omega

theorem ci_recvFrom (s : State) (h : Nat) (s' : State) (hc : CI s) (hs : recvFrom s h = some s') : CI s' := by
  unfold recvFrom at hs
  split at hs
  · simp at hs
  · rename_i ch hch
    split at hs
    · simp at hs
    · rename_i r0 rest hb
      simp at hs; subst hs
      refine ⟨?_, hc.2⟩
      · intro r
        have h2 := inCh_set r s.chans h ch { ch with buf := rest } hch
        have := hc.1 r
        simp [tot, List.count_append, hb, List.count_cons] at *
        omega

theorem ci_migOne (s : State) (o n : Nat) (s' : State) (hc : CI s) (hs : migOne s o n = some s') : CI s' := by
  unfold migOne at hs
  split at hs
  · simp at hs
  · rename_i hon
    split at hs
    · rename_i co cn hco hcn
      split at hs
      · simp at hs
      · rename_i r0 rest hb
        split at hs
        · simp at hs; subst hs
          refine ⟨?_, hc.2⟩
          · intro r
            have h1 := inCh_set r s.chans o co { co with buf := rest } hco
            have hcn' : (s.chans.set o { co with buf := rest })[n]? = some cn := by
              rw [List.getElem?_set]; simp [hon, hcn]
            have h2 := inCh_set r (s.chans.set o { co with buf := rest }) n cn { cn with buf := cn.buf ++ [r0] } hcn'
            have := hc.1 r
            simp [tot, List.count_append, hb, List.count_cons] at *
            omega
        · simp at hs
    · simp at hs

end Ingest

namespace Ingest

theorem nonIdle_goto (pc : PC) (h : pc ≠ .idle) : (Next.goto pc).nonIdle := h

theorem ci_stepPc (c : Cfg) (s : State) (i : Nat) (p : Prod) (w : Wit) (s' : State)
    (hp : s.prods[i]? = some p) (hc : CI s) (hs : stepPc c s i p w p.pc = some s') : CI s' := by
  have AP : ∀ (s0 : State) (nx : Next), s0.prods = s.prods → s0.chans = s.chans → s0.processed = s.processed →
      s0.dropped = s.dropped → s0.exits = s.exits → s0.input = s.input → nx.nonIdle → CI (nx.apply s0 i p) := by
    intro s0 nx h1 h2 h3 h4 h5 h6 hn
    exact ci_apply s0 i p nx (by rw [h1]; exact hp) hn (ci_congr s s0 h1 h2 h3 h4 h5 h6 hc)
  cases hpc : p.pc with
  | idle => rw [hpc] at hs; exact ci_emit c s i p s' hp hpc hc hs
  | sendLock att =>
    rw [hpc] at hs; simp only [stepPc, doSendLock] at hs
    split at hs
    · split at hs
      · simp at hs; subst hs; exact AP s _ rfl rfl rfl rfl rfl rfl (afterFail_nonIdle c att)
      · simp at hs; subst hs; exact AP s _ rfl rfl rfl rfl rfl rfl (by simp [Next.nonIdle])
    · simp at hs
  | sendSend att =>
    rw [hpc] at hs; simp only [stepPc, doSendSend] at hs
    split at hs
    · simp at hs; subst hs; exact AP s _ rfl rfl rfl rfl rfl rfl (afterFail_nonIdle c att)
    · split at hs
      · exact ci_pushTo s i p _ s' hp hc hs
      · simp at hs; subst hs; exact AP s _ rfl rfl rfl rfl rfl rfl (afterFail_nonIdle c att)
  | expEnter =>
    rw [hpc] at hs; simp only [stepPc, doExpEnter] at hs
    split at hs
    · simp at hs; subst hs; exact AP s _ rfl rfl rfl rfl rfl rfl (trySend_nonIdle c s 1)
    · simp at hs; subst hs; exact AP _ _ rfl rfl rfl rfl rfl rfl (by simp [Next.nonIdle])
  | expRead =>
    rw [hpc] at hs; simp only [stepPc, doExpRead] at hs
    split at hs
    · split at hs
      · simp at hs; subst hs; exact AP _ _ rfl rfl rfl rfl rfl rfl (trySend_nonIdle c s 1)
      · simp at hs; subst hs; exact AP s _ rfl rfl rfl rfl rfl rfl (by simp [Next.nonIdle])
    · simp at hs
  | expWLock n =>
    rw [hpc] at hs; simp only [stepPc, doExpWLock] at hs
    split at hs
    · simp at hs; subst hs
      have hc' : CI { s with chans := s.chans ++ [{ cap := n, buf := [] }], mig := some (i, s.curCh, s.chans.length) } := by
        refine ⟨?_, hc.2⟩
        · intro r; have := hc.1 r; simp [tot, inCh_append_empty] at this ⊢; exact this
      exact ci_apply _ i p _ hp (by simp [Next.nonIdle]) hc'
    · simp at hs
  | expMig =>
    rw [hpc] at hs; simp only [stepPc, doExpMig] at hs
    split at hs
    · split at hs
      · simp only [migStep] at hs
        split at hs
        · simp at hs; subst hs; exact AP _ _ rfl rfl rfl rfl rfl rfl (by simp [Next.nonIdle])
        · split at hs
          · exact ci_migOne s _ _ s' hc hs
          · simp at hs
      · simp at hs
    · simp at hs
  | expDone =>
    rw [hpc] at hs; simp only [stepPc, doExpDone] at hs
    simp at hs; subst hs; exact AP _ _ rfl rfl rfl rfl rfl rfl (trySend_nonIdle c s 1)
  | expRetry k =>
    rw [hpc] at hs; simp only [stepPc] at hs
    cases w <;> simp only [doExpRetry] at hs
    all_goals first
      | (simp at hs; subst hs; exact AP s _ rfl rfl rfl rfl rfl rfl (trySend_nonIdle c s (k + 2)))
      | (split at hs
         · simp at hs; subst hs; exact AP s _ rfl rfl rfl rfl rfl rfl (by simp [Next.nonIdle])
         · simp at hs)
  | dropGet =>
    rw [hpc] at hs; simp only [stepPc, doDropGet] at hs
    split at hs
    · split at hs
      · simp at hs; subst hs; exact AP s _ rfl rfl rfl rfl rfl rfl (by simp [Next.nonIdle])
      · simp at hs; subst hs; exact AP s _ rfl rfl rfl rfl rfl rfl (by simp [Next.nonIdle])
    · simp at hs
  | dropRetry k h =>
    rw [hpc] at hs; simp only [stepPc] at hs
    cases w <;> simp only [doDropRetry] at hs
    all_goals first
      | (simp at hs; subst hs; exact AP s _ rfl rfl rfl rfl rfl rfl (dropTimer_nonIdle k h))
      | (split at hs
         · exact ci_pushTo s i p _ s' hp hc hs
         · simp at hs)
      | (split at hs
         · simp at hs; subst hs; exact AP s _ rfl rfl rfl rfl rfl rfl (by simp [Next.nonIdle])
         · simp at hs)
  | blockGet =>
    rw [hpc] at hs; simp only [stepPc, doBlockGet] at hs
    split at hs
    · split at hs
      · simp at hs; subst hs; exact AP s _ rfl rfl rfl rfl rfl rfl (by simp [Next.nonIdle])
      · simp at hs; subst hs; exact AP s _ rfl rfl rfl rfl rfl rfl (by simp [Next.nonIdle])
    · simp at hs
  | blockSend h =>
    rw [hpc] at hs; simp only [stepPc] at hs
    cases w <;> simp only [doBlockSend] at hs
    all_goals first
      | (simp at hs; done)
      | (split at hs
         · exact ci_pushTo s i p _ s' hp hc hs
         · simp at hs)
      | (split at hs
         · simp at hs; subst hs; exact AP s _ rfl rfl rfl rfl rfl rfl (by simp [Next.nonIdle])
         · simp at hs)

theorem ci_step (c : Cfg) (s s' : State) (t : Tid) (w : Wit) (hc : CI s) (hs : step c s t w = some s') : CI s' := by
  cases t with
  | prod i =>
    simp only [step, stepProd] at hs
    split at hs
    · simp at hs
    · rename_i p hp
      exact ci_stepPc c s i p w s' hp hc hs
  | cons =>
    simp only [step, stepCons] at hs
    split at hs
    · simp only [doConsRead] at hs
      split at hs
      · split at hs <;> (simp at hs; subst hs; exact ci_congr s _ rfl rfl rfl rfl rfl rfl hc)
      · simp at hs
    · cases w <;> simp only [doConsHold] at hs
      all_goals first
        | (simp at hs; done)
        | exact ci_recvFrom s _ s' hc hs
        | (simp at hs; subst hs; exact ci_congr s _ rfl rfl rfl rfl rfl rfl hc)
        | (split at hs
           · simp at hs; subst hs; exact ci_congr s _ rfl rfl rfl rfl rfl rfl hc
           · simp at hs)
    · simp at hs
  | stop =>
    simp only [step, stepStop] at hs
    split at hs
    · split at hs <;> (simp at hs; subst hs; exact ci_congr s _ rfl rfl rfl rfl rfl rfl hc)
    · simp at hs; subst hs; exact ci_congr s _ rfl rfl rfl rfl rfl rfl hc
    · split at hs
      · simp at hs; subst hs; exact ci_congr s _ rfl rfl rfl rfl rfl rfl hc
      · simp at hs
    · simp at hs; subst hs; exact ci_congr s _ rfl rfl rfl rfl rfl rfl hc
    · simp at hs
    · simp at hs

theorem ci_init (c : Cfg) (n : Nat) : CI (init c n) := by
  refine ⟨?_, ?_, ?_⟩
  · intro r
    have h1 : ∀ m k, List.count r (List.flatMap flyRows ((List.range' k m).map (fun i => ({ id := i, pc := .idle, next := 0, cur := none } : Prod)))) = 0 := by
      intro m; induction m with
      | zero => intro k; simp
      | succ m ih => intro k; simp [List.range'_succ, List.flatMap_cons, flyRows, ih]
    have h2 : ∀ m k, List.count r (List.flatMap entRows ((List.range' k m).map (fun i => ({ id := i, pc := .idle, next := 0, cur := none } : Prod)))) = 0 := by
      intro m; induction m with
      | zero => intro k; simp
      | succ m ih => intro k; simp [List.range'_succ, List.flatMap_cons, entRows, ih]
    simp [tot, init, inCh, fly, ent, List.range_eq_range', h1, h2]
  · intro i p hp _
    simp [init] at hp
    obtain ⟨_, _, rfl⟩ := hp
    rfl
  · have h3 : ∀ m k, sumNext ((List.range' k m).map (fun i => ({ id := i, pc := .idle, next := 0, cur := none } : Prod))) = 0 := by
      intro m; induction m with
      | zero => intro k; simp [sumNext]
      | succ m ih => intro k; have := ih (k + 1); simp [List.range'_succ, sumNext] at this ⊢; exact this
    simp [InOk, init, List.range_eq_range', h3]

theorem ci_reach (c : Cfg) (n : Nat) (s : State) (h : Reach c n s) : CI s := by
  induction h with
  | init => exact ci_init c n
  | step t w _ hs ih => exact ci_step c _ _ t w ih hs

end Ingest
