/-
Counting window: per key, emissions = full chunks of N (helper lemmas for C09).
Invariant: every key's buffer is shorter than N; the rows still to be chunked for key k are
`bufOf s k ++ (rows of k yet to come)`.
-/
import SsqlVerif.Model.Counting
import SsqlVerif.Spec.Counting
set_option autoImplicit false
set_option linter.unusedSectionVars false

namespace Counting
open CountingSpec
section
variable {σ ρ : Type} [DecidableEq σ]

/-! ### the chunk function -/

theorem fullChunks_short (n : Nat) (l : List ρ) (h : l.length < n) : fullChunks n l = [] := by
  unfold fullChunks
  rw [Nat.div_eq_of_lt h]
  rfl

theorem fullChunks_unfold (n : Nat) (hn : 0 < n) (l : List ρ) (h : n ≤ l.length) :
    fullChunks n l = l.take n :: fullChunks n (l.drop n) := by
  unfold fullChunks
  have hdiv : l.length / n = (l.length - n) / n + 1 := by
    rw [Nat.div_eq l.length n, if_pos ⟨hn, h⟩]
  rw [hdiv, List.range_succ_eq_map, List.map_cons, List.map_map]
  simp only [Nat.zero_mul, List.drop_zero, List.length_drop, List.cons.injEq, true_and]
  apply List.map_congr_left
  intro i _
  simp only [Function.comp, List.drop_drop]
  rw [Nat.succ_mul, Nat.add_comm]

theorem fullChunks_append (n : Nat) (hn : 0 < n) (a t : List ρ) (h : n ≤ a.length) :
    fullChunks n (a ++ t) = a.take n :: fullChunks n (a.drop n ++ t) := by
  rw [fullChunks_unfold n hn (a ++ t) (by simp; omega)]
  rw [List.take_append_of_le_length h, List.drop_append_of_le_length h]

/-! ### the buffer map -/

theorem bufOf_setBuf (s : Bufs σ ρ) (k k' : σ) (b : List ρ) :
    bufOf (setBuf s k' b) k = if k' = k then b else bufOf s k := by
  induction s with
  | nil => simp [setBuf, bufOf]
  | cons e rest ih =>
    unfold setBuf
    by_cases h1 : e.1 = k'
    · rw [if_pos h1]
      by_cases h2 : k' = k
      · simp [bufOf, h2]
      · have : ¬ e.1 = k := fun h => h2 (h1.symm.trans h)
        simp [bufOf, h2, this]
    · rw [if_neg h1]
      by_cases h2 : e.1 = k
      · have : ¬ k' = k := fun h => h1 (h2.trans h.symm)
        simp [bufOf, h2, this]
      · simp only [bufOf, if_neg h2, ih]

/-- the invariant: every buffer is shorter than the threshold -/
def Short (n : Nat) (s : Bufs σ ρ) : Prop := ∀ k, (bufOf s k).length < n

theorem short_nil (n : Nat) (hn : 0 < n) : Short n ([] : Bufs σ ρ) := fun _ => by simpa [bufOf] using hn

theorem kept_length (n : Nat) (hn : 0 < n) (s : Bufs σ ρ) (hs : Short n s) (k : σ) (r : ρ) :
    (kept n s k r).length < n := by
  unfold kept
  by_cases hf : fires n s k r = true
  · rw [if_pos hf]
    have h1 : n ≤ (appended s k r).length := by simpa [fires] using hf
    have h2 : (appended s k r).length = (bufOf s k).length + 1 := by simp [appended]
    have := hs k
    simp only [List.length_drop]
    omega
  · rw [if_neg hf]
    have h1 : ¬ n ≤ (appended s k r).length := by simpa [fires] using hf
    omega

theorem short_add (n : Nat) (hn : 0 < n) (s : Bufs σ ρ) (hs : Short n s) (k : σ) (r : ρ) :
    Short n (add n s k r).1 := by
  intro k0
  simp only [add, bufOf_setBuf]
  by_cases h : k = k0
  · rw [if_pos h]; exact kept_length n hn s hs k r
  · rw [if_neg h]; exact hs k0

/-! ### rows-only histories -/

/-- rows of key `k` in an op list -/
def rowsOfOps : List (Op σ ρ) → σ → List ρ
  | [], _ => []
  | .row k' r :: ops, k => if k' = k then r :: rowsOfOps ops k else rowsOfOps ops k
  | .reap _ :: ops, k => rowsOfOps ops k

/-- "no key state is reaped by STATETTL" -/
def noReap : List (Op σ ρ) → Bool
  | [] => true
  | .row _ _ :: ops => noReap ops
  | .reap _ :: _ => false

theorem run_eq_chunks_gen (n : Nat) (hn : 0 < n) (k : σ) :
    ∀ (ops : List (Op σ ρ)) (s : Bufs σ ρ), Short n s → noReap ops = true →
      emissionsOf (run n s ops) k = fullChunks n (bufOf s k ++ rowsOfOps ops k) := by
  intro ops
  induction ops with
  | nil =>
    intro s hs _
    simp only [run, emissionsOf, List.filter_nil, List.map_nil, rowsOfOps, List.append_nil]
    exact (fullChunks_short n _ (hs k)).symm
  | cons op ops ih =>
    intro s hs hnr
    cases op with
    | reap idle => simp [noReap] at hnr
    | row k' r =>
      have hnr' : noReap ops = true := by simpa [noReap] using hnr
      have hs' := short_add n hn s hs k' r
      have ih' := ih (add n s k' r).1 hs' hnr'
      have hbuf : bufOf (add n s k' r).1 k = if k' = k then kept n s k' r else bufOf s k := by
        simp only [add, bufOf_setBuf]
      by_cases hk : k' = k
      · -- a row of key k
        subst hk
        rw [hbuf, if_pos rfl] at ih'
        simp only [rowsOfOps, if_true]
        have happ : bufOf s k' ++ r :: rowsOfOps ops k' = appended s k' r ++ rowsOfOps ops k' := by
          simp [appended]
        rw [happ]
        by_cases hf : fires n s k' r = true
        · have hle : n ≤ (appended s k' r).length := by simpa [fires] using hf
          have hrun : run n s (Op.row k' r :: ops) = (k', batch n s k' r) :: run n (add n s k' r).1 ops := by
            simp [run, add, hf]
          rw [hrun, fullChunks_append n hn _ _ hle]
          simp only [emissionsOf, List.filter_cons, decide_true, if_true, List.map_cons] at ih' ⊢
          rw [ih']
          simp [batch, kept, hf]
        · have hrun : run n s (Op.row k' r :: ops) = run n (add n s k' r).1 ops := by
            simp [run, add, hf]
          rw [hrun, ih']
          simp [kept, hf]
      · -- a row of another key: no influence on k
        rw [hbuf, if_neg hk] at ih'
        simp only [rowsOfOps, if_neg hk]
        by_cases hf : fires n s k' r = true
        · have hrun : run n s (Op.row k' r :: ops) = (k', batch n s k' r) :: run n (add n s k' r).1 ops := by
            simp [run, add, hf]
          rw [hrun]
          simp only [emissionsOf, List.filter_cons, hk, decide_false] at ih' ⊢
          simpa using ih'
        · have hrun : run n s (Op.row k' r :: ops) = run n (add n s k' r).1 ops := by
            simp [run, add, hf]
          rw [hrun, ih']

theorem chunk_length (n : Nat) (l : List ρ) : ∀ c ∈ fullChunks n l, c.length = n := by
  intro c hc
  unfold fullChunks at hc
  obtain ⟨i, hi, rfl⟩ := List.mem_map.1 hc
  have hi' : i < l.length / n := by simpa using hi
  have : (i + 1) * n ≤ l.length := by
    have := Nat.mul_le_mul_right n (Nat.succ_le_of_lt hi')
    exact Nat.le_trans this (Nat.div_mul_le_self _ _)
  simp only [List.length_take, List.length_drop]
  rw [Nat.succ_mul] at this
  omega

end
end Counting

namespace Counting
open CountingSpec
section
variable {σ ρ : Type} [DecidableEq σ]

theorem noReap_map_row {κ : Type} (enc : κ → σ) (rows : List (κ × ρ)) :
    noReap (rows.map fun x => Op.row (enc x.1) x.2) = true := by
  induction rows with
  | nil => rfl
  | cons x xs ih => simpa [noReap] using ih

theorem rowsOfOps_map_row {κ : Type} (enc : κ → σ) (rows : List (κ × ρ)) (s : σ) :
    rowsOfOps (rows.map fun x => Op.row (enc x.1) x.2) s
      = (rows.filter fun x => decide (enc x.1 = s)).map Prod.snd := by
  induction rows with
  | nil => rfl
  | cons x xs ih =>
    simp only [List.map_cons, rowsOfOps, List.filter_cons]
    by_cases h : enc x.1 = s
    · simp [h, ih]
    · simp [h, ih]

theorem fullChunks_flatten (n : Nat) (hn : 0 < n) : ∀ (m : Nat) (l : List ρ), l.length / n = m →
    (fullChunks n l).flatten = l.take (m * n) := by
  intro m
  induction m with
  | zero =>
    intro l h
    have : l.length < n := by
      cases Nat.lt_or_ge l.length n with
      | inl h' => exact h'
      | inr h' =>
        have := Nat.div_pos h' hn
        omega
    simp [fullChunks_short n l this]
  | succ m ih =>
    intro l h
    have hle : n ≤ l.length := by
      cases Nat.lt_or_ge l.length n with
      | inl h' => rw [Nat.div_eq_of_lt h'] at h; omega
      | inr h' => exact h'
    have hd : (l.drop n).length / n = m := by
      have := Nat.div_eq l.length n
      rw [if_pos ⟨hn, hle⟩] at this
      simp only [List.length_drop]
      omega
    rw [fullChunks_unfold n hn l hle, List.flatten_cons, ih _ hd]
    rw [Nat.succ_mul, Nat.add_comm (m * n) n, List.take_add]

end
end Counting
