/-
Helper lemmas for C15: invariants of one partition of the engine model (`Model/Cep`).

`RunOK c H r`  — run `r` is a classified, DEFINE-checked, WITHIN-bounded slice of the
                 partition's rows `H`, and every state in its state set is reached from the
                 NFA's start state by a path labelled with the run's classification.
`Inv c H p`    — every live run is such a run and has consumed all rows up to the last one;
                 every pending run is such a run and accepting.
`Chain`        — the emitted matches of a partition respect `nextStart` and number 1,2,3,….
Core Lean only.
-/
import SsqlVerif.Model.Cep
import SsqlVerif.Proofs.CepNfa
set_option autoImplicit false
set_option linter.unusedVariables false
set_option linter.unusedSimpArgs false
set_option linter.unusedSectionVars false

namespace Cep
open Spec
section
variable {ρ : Type}

/-! ### `skipTo` only looks at the start and the classified rows -/

def skipToM (c : Cfg ρ) (start : Nat) (h : List (ρ × Sym)) : Nat :=
  skipTo c { states := [], hist := h, startTs := 0, startSeq := start }

theorem skipTo_eq (c : Cfg ρ) (r : Run ρ) : skipTo c r = skipToM c r.startSeq r.hist := by
  unfold skipToM skipTo
  cases c.skip with
  | pastLast => rfl
  | nextRow => rfl
  | toFirst a => cases a <;> simp [skipAfterLabel] <;> (split <;> rfl)
  | toLast a => cases a <;> simp [skipAfterLabel] <;> (split <;> rfl)

theorem idxFirst_lt (a : Sym) : ∀ (h : List (ρ × Sym)) (i : Nat), idxFirst a h = some i → i < h.length
  | [], i, hi => by simp [idxFirst] at hi
  | x :: xs, i, hi => by
    simp only [idxFirst] at hi
    split at hi
    · cases hi; simp
    · cases h' : idxFirst a xs with
      | none => simp [h'] at hi
      | some j =>
        simp [h'] at hi
        have := idxFirst_lt a xs j h'
        subst hi; simp; omega

theorem idxLast_lt (a : Sym) : ∀ (h : List (ρ × Sym)) (i : Nat), idxLast a h = some i → i < h.length
  | [], i, hi => by simp [idxLast] at hi
  | x :: xs, i, hi => by
    simp only [idxLast] at hi
    cases h' : idxLast a xs with
    | none =>
      simp [h'] at hi
      obtain ⟨_, rfl⟩ := hi; simp
    | some j =>
      simp [h'] at hi
      have := idxLast_lt a xs j h'
      subst hi; simp; omega

/-- the scan never resumes at or before the start of a non-empty match … -/
theorem skipToM_gt (c : Cfg ρ) (s : Nat) (h : List (ρ × Sym)) (hne : h ≠ []) : s < skipToM c s h := by
  have hl : 0 < h.length := List.length_pos_iff.2 hne
  unfold skipToM skipTo
  cases c.skip with
  | pastLast => simp; omega
  | nextRow => simp
  | toFirst a =>
    cases a with
    | none => simp; omega
    | some a =>
      simp only [skipAfterLabel]
      split <;> simp <;> omega
  | toLast a =>
    cases a with
    | none => simp; omega
    | some a =>
      simp only [skipAfterLabel]
      split <;> simp <;> omega

/-- … and never beyond the row after its last row -/
theorem skipToM_le (c : Cfg ρ) (s : Nat) (h : List (ρ × Sym)) (hne : h ≠ []) : skipToM c s h ≤ s + h.length := by
  have hl : 0 < h.length := List.length_pos_iff.2 hne
  unfold skipToM skipTo
  cases c.skip with
  | pastLast => simp
  | nextRow => simp; omega
  | toFirst a =>
    cases a with
    | none => simp
    | some a =>
      simp only [skipAfterLabel]
      split
      · next i hi => have := idxFirst_lt a h i hi; simp; omega
      · simp
  | toLast a =>
    cases a with
    | none => simp
    | some a =>
      simp only [skipAfterLabel]
      split
      · next i hi => have := idxLast_lt a h i hi; simp; omega
      · simp

theorem skipToM_pastLast (c : Cfg ρ) (hs : c.skip = Skip.pastLast) (s : Nat) (h : List (ρ × Sym)) :
    skipToM c s h = s + h.length := by
  unfold skipToM skipTo; rw [hs]

/-! ### runs -/

/-- `r` has consumed the partition's rows up to the last one -/
def Tight (H : List ρ) (r : Run ρ) : Prop := r.startSeq - 1 + r.hist.length = H.length

structure RunOK (c : Cfg ρ) (H : List ρ) (r : Run ρ) : Prop where
  start_pos : 1 ≤ r.startSeq
  bound : r.startSeq - 1 + r.hist.length ≤ H.length
  rows : r.hist.map (·.1) = (H.drop (r.startSeq - 1)).take r.hist.length
  defs : defOK c.define [] r.hist = true
  path : ∀ q ∈ r.states, ∃ n, PathN c.tbl n c.start (r.hist.map (·.2)) q
  within : ∀ x ∈ r.hist, c.ts x.1 - r.startTs ≤ c.within
  startTs : ∀ x, r.hist.head? = some x → c.ts x.1 = r.startTs

theorem take_drop_append_of_le {α : Type} (H : List α) (x : List α) (k n : Nat) (h : k + n ≤ H.length) :
    ((H ++ x).drop k).take n = (H.drop k).take n := by
  rw [List.drop_append_of_le_length (by omega), List.take_append_of_le_length (by simp; omega)]

theorem RunOK.mono {c : Cfg ρ} {H : List ρ} {r : Run ρ} (h : RunOK c H r) (x : List ρ) : RunOK c (H ++ x) r :=
  { start_pos := h.start_pos
    bound := by have := h.bound; simp; omega
    rows := by rw [take_drop_append_of_le H x _ _ h.bound]; exact h.rows
    defs := h.defs, path := h.path, within := h.within, startTs := h.startTs }

theorem defOK_append (d : Sym → List (ρ × Sym) → ρ → Bool) :
    ∀ (xs pre : List (ρ × Sym)) (y : ρ × Sym),
      defOK d pre (xs ++ [y]) = (defOK d pre xs && d y.2 (pre ++ xs) y.1)
  | [], pre, y => by simp [defOK]
  | x :: xs, pre, y => by
    simp only [List.cons_append, defOK]
    rw [defOK_append d xs (pre ++ [x]) y]
    simp [Bool.and_assoc]

theorem mem_matchOuts {T : Tbl} {states : List Nat} {a : Sym} {o : Nat} (h : (a, o) ∈ matchOuts T states) :
    ∃ i ∈ states, T[i]? = some (Node.mtch a o) := by
  unfold matchOuts at h
  obtain ⟨i, hi, hx⟩ := List.mem_filterMap.1 h
  refine ⟨i, hi, ?_⟩
  split at hx
  · next a' o' heq => cases hx; exact heq
  · cases hx

theorem PathN.snoc_mtch {T : Tbl} {n i j e : Nat} {w : List Sym} {a : Sym} (hp : PathN T n i w j)
    (hs : T[j]? = some (Node.mtch a e)) : PathN T (n + 1) i (w ++ [a]) e := by
  have := hp.trans (PathN.mtch hs (PathN.refl e))
  simpa using this

/-- one `advance` step keeps a run a run -/
theorem advance_ok {c : Cfg ρ} {H : List ρ} {r s : Run ρ} {row : ρ}
    (hr : RunOK c H r) (ht : Tight H r) (hs : s ∈ advance c r row)
    (hw : c.ts row - r.startTs ≤ c.within) (hh : r.hist = [] → r.startTs = c.ts row) :
    RunOK c (H ++ [row]) s ∧ Tight (H ++ [row]) s ∧ s.hist ≠ [] ∧ s.startSeq = r.startSeq := by
  unfold advance at hs
  obtain ⟨ao, hao, rfl⟩ := List.mem_map.1 hs
  unfold takers at hao
  obtain ⟨hmem, hdef⟩ := List.mem_filter.1 hao
  obtain ⟨a, o⟩ := ao
  obtain ⟨i, hi, hnode⟩ := mem_matchOuts hmem
  unfold Tight at ht
  refine ⟨?_, ?_, ?_, rfl⟩
  · exact
    { start_pos := hr.start_pos
      bound := by simp [succRun]; omega
      rows := by
        simp only [succRun, List.map_append, List.map_cons, List.map_nil, List.length_append, List.length_singleton]
        rw [List.drop_append_of_le_length (by omega), List.take_of_length_le (by simp; omega), hr.rows,
          List.take_of_length_le (by simp; omega)]
      defs := by
        simp only [succRun]
        rw [defOK_append]
        simp only [List.nil_append, Bool.and_eq_true]
        exact ⟨hr.defs, hdef⟩
      path := by
        intro q hq
        simp only [succRun] at hq ⊢
        obtain ⟨n1, p1⟩ := hr.path i hi
        obtain ⟨n2, p2⟩ := closure_sound c.tbl o q hq
        have := (p1.snoc_mtch hnode).trans p2
        simp only [List.map_append, List.map_cons, List.map_nil]
        exact ⟨_, by simpa using this⟩
      within := by
        intro x hx
        simp only [succRun, List.mem_append, List.mem_singleton] at hx ⊢
        rcases hx with hx | rfl
        · exact hr.within x hx
        · exact hw
      startTs := by
        intro x hx
        simp only [succRun] at hx ⊢
        cases hhist : r.hist with
        | nil =>
          rw [hhist] at hx
          simp at hx
          subst hx
          exact (hh hhist).symm
        | cons y ys =>
          rw [hhist] at hx
          simp at hx
          subst hx
          exact hr.startTs y (by rw [hhist]; rfl) }
  · simp [Tight, succRun]; omega
  · simp [succRun]

/-! ### `ingestPending`, `minStart` -/

theorem mem_ingestOne {ns : Nat} {pend : List (Run ρ)} {x y : Run ρ} (h : y ∈ ingestOne ns pend x) :
    y ∈ pend ∨ y = x := by
  unfold ingestOne at h
  split at h
  · exact Or.inl h
  · split at h
    · rcases List.mem_append.1 h with h | h
      · exact Or.inl h
      · exact Or.inr (List.mem_singleton.1 h)
    · split at h
      · obtain ⟨z, hz, rfl⟩ := List.mem_map.1 h
        split
        · exact Or.inr rfl
        · exact Or.inl hz
      · exact Or.inl h

theorem mem_ingest {ns : Nat} : ∀ (cs pend : List (Run ρ)) {y : Run ρ}, y ∈ ingest ns pend cs → y ∈ pend ∨ y ∈ cs
  | [], pend, y, h => Or.inl (by simpa [ingest] using h)
  | x :: cs, pend, y, h => by
    have h' : y ∈ ingest ns (ingestOne ns pend x) cs := by simpa [ingest] using h
    rcases mem_ingest cs _ h' with h1 | h1
    · rcases mem_ingestOne h1 with h2 | h2
      · exact Or.inl h2
      · exact Or.inr (by rw [h2]; exact List.mem_cons_self ..)
    · exact Or.inr (List.mem_cons_of_mem _ h1)

theorem nodup_sublist_map {α β : Type} {f : α → β} {l1 l2 : List α} (h : l1.Sublist l2) (hn : (l2.map f).Nodup) :
    (l1.map f).Nodup := List.Pairwise.sublist (h.map f) hn

theorem ingestOne_uniq {ns : Nat} {pend : List (Run ρ)} (x : Run ρ) (h : (pend.map (·.startSeq)).Nodup) :
    ((ingestOne ns pend x).map (·.startSeq)).Nodup := by
  unfold ingestOne
  split
  · exact h
  · split
    · next hf =>
      rw [List.map_append]
      refine List.nodup_append.2 ⟨h, by simp, ?_⟩
      intro a ha b hb
      simp only [List.map_cons, List.map_nil, List.mem_singleton] at hb
      subst hb
      obtain ⟨y, hy, rfl⟩ := List.mem_map.1 ha
      have := List.find?_eq_none.1 hf y hy
      simpa using this
    · split
      · have : (pend.map fun y => if (y.startSeq == x.startSeq) = true then x else y).map (·.startSeq) = pend.map (·.startSeq) := by
          rw [List.map_map]
          apply List.map_congr_left
          intro y hy
          simp only [Function.comp]
          split
          · next he => exact (by simpa using he : y.startSeq = x.startSeq).symm
          · rfl
        rw [this]; exact h
      · exact h

theorem ingest_uniq {ns : Nat} : ∀ (cs pend : List (Run ρ)), (pend.map (·.startSeq)).Nodup →
    ((ingest ns pend cs).map (·.startSeq)).Nodup
  | [], pend, h => by simpa [ingest] using h
  | x :: cs, pend, h => by
    have := ingest_uniq (ns := ns) cs (ingestOne ns pend x) (ingestOne_uniq x h)
    simpa [ingest] using this

theorem minStart_mem {ns : Nat} : ∀ {pend : List (Run ρ)} {b : Run ρ}, minStart ns pend = some b → b ∈ pend ∧ ns ≤ b.startSeq
  | [], b, h => by simp [minStart] at h
  | r :: rs, b, h => by
    simp only [minStart] at h
    cases hm : minStart ns rs with
    | none =>
      rw [hm] at h
      simp only at h
      split at h
      · next hle => cases h; exact ⟨List.mem_cons_self .., hle⟩
      · cases h
    | some b' =>
      rw [hm] at h
      simp only at h
      have ih := minStart_mem hm
      split at h
      · next hle => cases h; exact ⟨List.mem_cons_self .., hle.1⟩
      · cases h; exact ⟨List.mem_cons_of_mem _ ih.1, ih.2⟩

/-! ### the emitted matches of one partition: numbering and resumption points -/

/-- `Chain c ns no ms ns' no'`: starting with `nextStart = ns` and `matchNo = no`, the matches `ms`
were emitted in this order, each at or after the then-current `nextStart`, numbered consecutively,
each moving `nextStart` to its `skipTo`; `ns'`/`no'` are the final values. -/
inductive Chain (c : Cfg ρ) : Nat → Nat → List (Match ρ) → Nat → Nat → Prop
  | nil (ns no : Nat) : Chain c ns no [] ns no
  | cons {ns no ns' no' : Nat} {m : Match ρ} {ms : List (Match ρ)} :
      ns ≤ m.startSeq → m.matchNo = no + 1 → m.rows ≠ [] →
      Chain c (skipToM c m.startSeq m.rows) (no + 1) ms ns' no' → Chain c ns no (m :: ms) ns' no'

theorem Chain.append {c : Cfg ρ} {a b a' b' a'' b'' : Nat} {xs ys : List (Match ρ)}
    (h1 : Chain c a b xs a' b') (h2 : Chain c a' b' ys a'' b'') : Chain c a b (xs ++ ys) a'' b'' := by
  induction h1 with
  | nil => simpa using h2
  | cons hle hno hne _ ih => exact Chain.cons hle hno hne (ih h2)

theorem Chain.ns_le {c : Cfg ρ} {a b a' b' : Nat} {xs : List (Match ρ)} (h : Chain c a b xs a' b') : a ≤ a' := by
  induction h with
  | nil => exact Nat.le_refl _
  | @cons ns no ns' no' m ms hle hno hne _ ih =>
    have := skipToM_gt c m.startSeq m.rows hne
    omega

theorem Chain.start_ge {c : Cfg ρ} {a b a' b' : Nat} {xs : List (Match ρ)} (h : Chain c a b xs a' b') :
    ∀ m ∈ xs, a ≤ m.startSeq := by
  induction h with
  | nil => intro m hm; cases hm
  | @cons ns no ns' no' m ms hle hno hne _ ih =>
    intro m' hm'
    rcases List.mem_cons.1 hm' with rfl | hm'
    · exact hle
    · have := ih m' hm'
      have := skipToM_gt c m.startSeq m.rows hne
      omega

theorem Chain.numbers {c : Cfg ρ} {a b a' b' : Nat} {xs : List (Match ρ)} (h : Chain c a b xs a' b') :
    xs.map (·.matchNo) = List.range' (b + 1) xs.length ∧ b' = b + xs.length := by
  induction h with
  | nil => simp
  | cons hle hno hne _ ih =>
    obtain ⟨ih1, ih2⟩ := ih
    refine ⟨?_, by simp; omega⟩
    simp only [List.map_cons, List.length_cons, List.range'_succ, hno, ih1]

/-- under SKIP PAST LAST ROW a later match starts after the last row of an earlier one -/
theorem Chain.disjoint {c : Cfg ρ} (hs : c.skip = Skip.pastLast) {a b a' b' : Nat} {xs : List (Match ρ)}
    (h : Chain c a b xs a' b') :
    xs.Pairwise (fun m1 m2 => m1.startSeq + m1.rows.length ≤ m2.startSeq) := by
  induction h with
  | nil => exact List.Pairwise.nil
  | cons hle hno hne hrest ih =>
    refine List.Pairwise.cons ?_ ih
    intro m' hm'
    have := hrest.start_ge m' hm'
    rwa [skipToM_pastLast c hs] at this

/-- in every SKIP mode the reported matches of a partition start at strictly increasing rows -/
theorem Chain.increasing {c : Cfg ρ} {a b a' b' : Nat} {xs : List (Match ρ)} (h : Chain c a b xs a' b') :
    xs.Pairwise (fun m1 m2 => m1.startSeq < m2.startSeq) := by
  induction h with
  | nil => exact List.Pairwise.nil
  | @cons ns no ns' no' m ms hle hno hne hrest ih =>
    refine List.Pairwise.cons ?_ ih
    intro m' hm'
    have := hrest.start_ge m' hm'
    have := skipToM_gt c m.startSeq m.rows hne
    omega

/-! ### `emitGreedy` / `emitLazy` -/

/-- what the emission loops guarantee about their result, for any property `P` of the candidates -/
structure EmitOK (c : Cfg ρ) (P : Run ρ → Prop) (s : ES ρ) (res : ES ρ × List (Match ρ)) : Prop where
  sub : res.1.pending.Sublist s.pending
  pending : ∀ x ∈ res.1.pending, x ∈ s.pending
  surv : ∀ x ∈ res.1.surv, x ∈ s.surv
  out : ∀ m ∈ res.2, ∃ b, P b ∧ m.rows = b.hist ∧ m.startSeq = b.startSeq
  chain : (∀ b, P b → b.hist ≠ []) → Chain c s.nextStart s.matchNo res.2 res.1.nextStart res.1.matchNo

theorem emitOne_pending (c : Cfg ρ) (s : ES ρ) (b x : Run ρ) (h : x ∈ (emitOne c s b).pending) : x ∈ s.pending :=
  (List.mem_filter.1 h).1
theorem emitOne_sub (c : Cfg ρ) (s : ES ρ) (b : Run ρ) : (emitOne c s b).pending.Sublist s.pending :=
  List.filter_sublist
theorem emitOne_surv (c : Cfg ρ) (s : ES ρ) (b x : Run ρ) (h : x ∈ (emitOne c s b).surv) : x ∈ s.surv :=
  (List.mem_filter.1 h).1

theorem emitGreedy_ok (c : Cfg ρ) (P : Run ρ → Prop) :
    ∀ (f : Nat) (s : ES ρ), (∀ x ∈ s.pending, P x) → EmitOK c P s (emitGreedy c f s)
  | 0, s, _ =>
    { sub := List.Sublist.refl _, pending := fun x h => h, surv := fun x h => h, out := fun m h => (by simp [emitGreedy] at h),
      chain := fun _ => Chain.nil _ _ }
  | f+1, s, hP => by
    unfold emitGreedy
    cases hm : minStart s.nextStart s.pending with
    | none =>
      exact { sub := List.Sublist.refl _, pending := fun x h => h, surv := fun x h => h, out := fun m h => (by cases h), chain := fun _ => Chain.nil _ _ }
    | some b =>
      simp only
      obtain ⟨hb, hle⟩ := minStart_mem hm
      split
      · exact { sub := List.Sublist.refl _, pending := fun x h => h, surv := fun x h => h, out := fun m h => (by cases h), chain := fun _ => Chain.nil _ _ }
      · have ih := emitGreedy_ok c P f (emitOne c s b)
          (fun x hx => hP x (emitOne_pending c s b x hx))
        exact
          { sub := ih.sub.trans (emitOne_sub c s b)
            pending := fun x h => emitOne_pending c s b x (ih.pending x h)
            surv := fun x h => emitOne_surv c s b x (ih.surv x h)
            out := fun m h => by
              simp only [consMatch] at h
              rcases List.mem_cons.1 h with rfl | h
              · exact ⟨b, hP b hb, rfl, rfl⟩
              · exact ih.out m h
            chain := fun hne => by
              simp only [consMatch]
              refine Chain.cons (m := mkMatch s b) hle rfl (hne b (hP b hb)) ?_
              have := ih.chain hne
              simpa [emitOne, mkMatch, skipTo_eq] using this }

theorem emitLazy_ok (c : Cfg ρ) (P : Run ρ → Prop) :
    ∀ (xs : List (Run ρ)) (s : ES ρ), (∀ x ∈ xs, P x) → EmitOK c P s (emitLazy c xs s)
  | [], s, _ =>
    { sub := List.Sublist.refl _, pending := fun x h => h, surv := fun x h => h, out := fun m h => (by simp [emitLazy] at h),
      chain := fun _ => Chain.nil _ _ }
  | x :: xs, s, hP => by
    unfold emitLazy
    split
    · exact emitLazy_ok c P xs s (fun y hy => hP y (List.mem_cons_of_mem _ hy))
    · next hlt =>
      have ih := emitLazy_ok c P xs (emitOne c s x) (fun y hy => hP y (List.mem_cons_of_mem _ hy))
      exact
        { sub := ih.sub.trans (emitOne_sub c s x)
          pending := fun y h => emitOne_pending c s x y (ih.pending y h)
          surv := fun y h => emitOne_surv c s x y (ih.surv y h)
          out := fun m h => by
            simp only [consMatch] at h
            rcases List.mem_cons.1 h with rfl | h
            · exact ⟨x, hP x (List.mem_cons_self ..), rfl, rfl⟩
            · exact ih.out m h
          chain := fun hne => by
            simp only [consMatch]
            refine Chain.cons (m := mkMatch s x) (by simp [mkMatch]; omega) rfl (hne x (hP x (List.mem_cons_self ..))) ?_
            have := ih.chain hne
            simpa [emitOne, mkMatch, skipTo_eq] using this }

theorem mem_insertLazy {x y : Run ρ} : ∀ {l : List (Run ρ)}, y ∈ insertLazy x l → y = x ∨ y ∈ l
  | [], h => by simp [insertLazy] at h; exact Or.inl h
  | z :: zs, h => by
    simp only [insertLazy] at h
    split at h
    · rcases List.mem_cons.1 h with rfl | h
      · exact Or.inr (List.mem_cons_self ..)
      · rcases mem_insertLazy h with h | h
        · exact Or.inl h
        · exact Or.inr (List.mem_cons_of_mem _ h)
    · rcases List.mem_cons.1 h with rfl | h
      · exact Or.inl rfl
      · exact Or.inr h

theorem mem_sortLazy_aux : ∀ (cs acc : List (Run ρ)) {y : Run ρ},
    y ∈ cs.foldl (fun acc x => insertLazy x acc) acc → y ∈ acc ∨ y ∈ cs
  | [], acc, y, h => Or.inl (by simpa using h)
  | x :: cs, acc, y, h => by
    simp only [List.foldl_cons] at h
    rcases mem_sortLazy_aux cs _ h with h | h
    · rcases mem_insertLazy h with rfl | h
      · exact Or.inr (List.mem_cons_self ..)
      · exact Or.inl h
    · exact Or.inr (List.mem_cons_of_mem _ h)

theorem mem_sortLazy {cs : List (Run ρ)} {y : Run ρ} (h : y ∈ sortLazy cs) : y ∈ cs := by
  rcases mem_sortLazy_aux cs [] h with h | h
  · cases h
  · exact h

/-! ### the partition invariant -/

/-- an accepting, non-empty, well-formed run: what may be emitted -/
def Cand (c : Cfg ρ) (H : List ρ) (r : Run ρ) : Prop := RunOK c H r ∧ r.hist ≠ [] ∧ runAccepting c r = true

theorem Cand.mono {c : Cfg ρ} {H : List ρ} {r : Run ρ} (h : Cand c H r) (x : List ρ) : Cand c (H ++ x) r :=
  ⟨h.1.mono x, h.2.1, h.2.2⟩

structure Inv (c : Cfg ρ) (H : List ρ) (p : Part ρ) : Prop where
  seq : p.seq = H.length
  runs : ∀ r ∈ p.runs, RunOK c H r ∧ Tight H r ∧ r.hist ≠ []
  pending : ∀ r ∈ p.pending, Cand c H r
  uniq : (p.pending.map (·.startSeq)).Nodup

theorem Inv.init (c : Cfg ρ) : Inv c [] ({} : Part ρ) :=
  { seq := rfl, runs := fun r h => (by cases h), pending := fun r h => (by cases h), uniq := List.nodup_nil }

theorem runComplete_accepting {c : Cfg ρ} {r : Run ρ} (h : runComplete c r = true) : runAccepting c r = true := by
  unfold runComplete isComplete at h
  unfold runAccepting
  exact (Bool.and_eq_true _ _ ▸ h).1

theorem live_within {c : Cfg ρ} {ts : Int} {r : Run ρ} (h : live c ts r = true) : ts - r.startTs ≤ c.within := by
  unfold live at h
  have := (Bool.and_eq_true _ _ ▸ h).1
  exact of_decide_eq_true this

theorem seedRun_ok (c : Cfg ρ) (H : List ρ) (ts : Int) :
    RunOK c H (seedRun c ts (H.length + 1)) ∧ Tight H (seedRun c ts (H.length + 1)) := by
  refine ⟨?_, by simp [Tight, seedRun]⟩
  exact
    { start_pos := by simp [seedRun]
      bound := by simp [seedRun]
      rows := by simp [seedRun]
      defs := by simp [seedRun, defOK]
      path := by
        intro q hq
        simp only [seedRun] at hq ⊢
        exact closure_sound c.tbl c.start q hq
      within := by intro x hx; simp [seedRun] at hx
      startTs := by intro x hx; simp [seedRun] at hx }

/-- every successor created in a step (from a live run or from the seed) -/
theorem successor_ok {c : Cfg ρ} {H : List ρ} {p : Part ρ} (hw : 0 ≤ c.within) (h : Inv c H p) (row : ρ) :
    (∀ r ∈ p.runs, live c (c.ts row) r = true → ∀ s ∈ advance c r row,
        RunOK c (H ++ [row]) s ∧ Tight (H ++ [row]) s ∧ s.hist ≠ []) ∧
    (∀ s ∈ seedSucc c p.nextStart row (c.ts row) (p.seq + 1),
        RunOK c (H ++ [row]) s ∧ Tight (H ++ [row]) s ∧ s.hist ≠ []) := by
  constructor
  · intro r hr hl s hs
    obtain ⟨h1, h2, h3⟩ := h.runs r hr
    obtain ⟨a, b, c', _⟩ := advance_ok h1 h2 hs (live_within hl) (fun he => absurd he h3)
    exact ⟨a, b, c'⟩
  · intro s hs
    unfold seedSucc at hs
    split at hs
    · rw [h.seq] at hs
      obtain ⟨h1, h2⟩ := seedRun_ok c H (c.ts row)
      obtain ⟨a, b, c', _⟩ := advance_ok h1 h2 hs (by simp [seedRun]; omega) (fun _ => by simp [seedRun])
      exact ⟨a, b, c'⟩
    · cases hs

theorem survivorsOf_ok {c : Cfg ρ} {H : List ρ} {p : Part ρ} (hw : 0 ≤ c.within) (h : Inv c H p) (row : ρ) :
    ∀ s ∈ survivorsOf c p row, RunOK c (H ++ [row]) s ∧ Tight (H ++ [row]) s ∧ s.hist ≠ [] := by
  obtain ⟨h1, h2⟩ := successor_ok hw h row
  intro s hs
  unfold survivorsOf at hs
  rcases List.mem_append.1 hs with hs | hs
  · obtain ⟨r, hr, hsr⟩ := List.mem_flatMap.1 hs
    unfold runSurvivors at hsr
    split at hsr
    · next hl => exact h1 r hr hl s (List.mem_filter.1 hsr).1
    · cases hsr
  · exact h2 s (List.mem_filter.1 hs).1

theorem completionsOf_ok {c : Cfg ρ} {H : List ρ} {p : Part ρ} (hw : 0 ≤ c.within) (h : Inv c H p) (row : ρ) :
    ∀ s ∈ completionsOf c p row, Cand c (H ++ [row]) s := by
  obtain ⟨h1, h2⟩ := successor_ok hw h row
  intro s hs
  unfold completionsOf at hs
  rcases List.mem_append.1 hs with hs | hs
  · obtain ⟨r, hr, hsr⟩ := List.mem_flatMap.1 hs
    unfold runCompletions at hsr
    split at hsr
    · next hl =>
      split at hsr
      · split at hsr
        · next hacc =>
          rw [List.mem_singleton.1 hsr]
          obtain ⟨a, _, b⟩ := h.runs r hr
          exact ⟨a.mono [row], b, hacc⟩
        · cases hsr
      · obtain ⟨hm, hc⟩ := List.mem_filter.1 hsr
        obtain ⟨a, _, b⟩ := h1 r hr hl s hm
        exact ⟨a, b, runComplete_accepting hc⟩
    · cases hsr
  · obtain ⟨hm, hc⟩ := List.mem_filter.1 hs
    obtain ⟨a, _, b⟩ := h2 s hm
    exact ⟨a, b, runComplete_accepting hc⟩

theorem greedyStart_pending {c : Cfg ρ} {H : List ρ} {p : Part ρ} (hw : 0 ≤ c.within) (h : Inv c H p) (row : ρ) :
    ∀ x ∈ (greedyStart c p row).pending, Cand c (H ++ [row]) x := by
  intro x hx
  unfold greedyStart at hx
  rcases mem_ingest _ _ hx with hx | hx
  · exact (h.pending x hx).mono [row]
  · rcases List.mem_append.1 hx with hx | hx
    · exact completionsOf_ok hw h row x hx
    · obtain ⟨hm, hacc⟩ := List.mem_filter.1 hx
      obtain ⟨a, _, b⟩ := survivorsOf_ok hw h row x hm
      exact ⟨a, b, hacc⟩

/-- the three facts about one `Process` call on a partition -/
structure StepOK (c : Cfg ρ) (H' : List ρ) (p : Part ρ) (res : Part ρ × List (Match ρ)) : Prop where
  inv : Inv c H' res.1
  out : ∀ m ∈ res.2, ∃ b, Cand c H' b ∧ m.rows = b.hist ∧ m.startSeq = b.startSeq
  chain : Chain c p.nextStart p.matchNo res.2 res.1.nextStart res.1.matchNo

theorem cand_nonempty {c : Cfg ρ} {H : List ρ} : ∀ b, Cand c H b → b.hist ≠ [] := fun b h => h.2.1

theorem stepPart_ok {c : Cfg ρ} {H : List ρ} {p : Part ρ} (hw : 0 ≤ c.within) (h : Inv c H p) (row : ρ) :
    StepOK c (H ++ [row]) p (stepPart c p row) := by
  have hsurv := survivorsOf_ok hw h row
  unfold stepPart emitStep
  cases hl : c.lazy with
  | true =>
    simp only [if_true]
    have hc : ∀ x ∈ sortLazy (completionsOf c p row), Cand c (H ++ [row]) x :=
      fun x hx => completionsOf_ok hw h row x (mem_sortLazy hx)
    have e := emitLazy_ok c (Cand c (H ++ [row])) _ (lazyStart c p row) hc
    exact
      { inv :=
          { seq := by simp [partOf, h.seq]
            runs := fun r hr => hsurv r (e.surv r hr)
            pending := fun r hr => (h.pending r (e.pending r hr)).mono [row]
            uniq := nodup_sublist_map e.sub h.uniq }
        out := e.out
        chain := e.chain cand_nonempty }
  | false =>
    simp only [Bool.false_eq_true, if_false]
    have hp := greedyStart_pending hw h row
    have e := emitGreedy_ok c (Cand c (H ++ [row])) ((greedyStart c p row).pending.length + 1) (greedyStart c p row) hp
    exact
      { inv :=
          { seq := by simp [partOf, h.seq]
            runs := fun r hr => hsurv r (e.surv r hr)
            pending := fun r hr => hp r (e.pending r (List.mem_filter.1 hr).1)
            uniq := nodup_sublist_map (List.filter_sublist.trans e.sub) (ingest_uniq _ _ h.uniq) }
        out := e.out
        chain := e.chain cand_nonempty }

theorem flushStart_pending {c : Cfg ρ} {H : List ρ} {p : Part ρ} (h : Inv c H p) :
    ∀ x ∈ (flushStart c p).pending, Cand c H x := by
  intro x hx
  unfold flushStart at hx
  rcases mem_ingest _ _ hx with hx | hx
  · exact h.pending x hx
  · obtain ⟨hm, hacc⟩ := List.mem_filter.1 hx
    obtain ⟨a, _, b⟩ := h.runs x hm
    exact ⟨a, b, hacc⟩

theorem flushPart_ok {c : Cfg ρ} {H : List ρ} {p : Part ρ} (h : Inv c H p) :
    StepOK c H p (flushPart c p) := by
  unfold flushPart emitFlush
  cases hl : c.lazy with
  | true =>
    simp only [if_true]
    have hc : ∀ x ∈ sortLazy (p.runs.filter (runAccepting c)), Cand c H x := by
      intro x hx
      obtain ⟨hm, hacc⟩ := List.mem_filter.1 (mem_sortLazy hx)
      obtain ⟨a, _, b⟩ := h.runs x hm
      exact ⟨a, b, hacc⟩
    have e := emitLazy_ok c (Cand c H) _
      { pending := p.pending, surv := [], matchNo := p.matchNo, nextStart := p.nextStart } hc
    exact
      { inv := { seq := h.seq, runs := h.runs, pending := fun r hr => h.pending r (e.pending r hr),
                 uniq := nodup_sublist_map e.sub h.uniq }
        out := e.out
        chain := e.chain cand_nonempty }
  | false =>
    simp only [Bool.false_eq_true, if_false]
    have hp := flushStart_pending h
    have e := emitGreedy_ok c (Cand c H) ((flushStart c p).pending.length + 1) (flushStart c p) hp
    exact
      { inv := { seq := h.seq, runs := h.runs, pending := fun r hr => hp r (e.pending r (List.mem_filter.1 hr).1),
                 uniq := nodup_sublist_map (List.filter_sublist.trans e.sub) (ingest_uniq _ _ h.uniq) }
        out := e.out
        chain := e.chain cand_nonempty }

/-! ### `Flush` leaves no accepting candidate behind (greedy mode) -/

theorem eq_of_nodup_map {α β : Type} {f : α → β} : ∀ {l : List α}, (l.map f).Nodup →
    ∀ {a b : α}, a ∈ l → b ∈ l → f a = f b → a = b
  | [], _, a, b, ha, _, _ => by cases ha
  | x :: xs, hn, a, b, ha, hb, hab => by
    simp only [List.map_cons, List.nodup_cons] at hn
    obtain ⟨hn1, hn2⟩ := hn
    rcases List.mem_cons.1 ha with hax | hax
    · rcases List.mem_cons.1 hb with hbx | hbx
      · rw [hax, hbx]
      · exfalso; apply hn1; rw [← hax, hab]; exact List.mem_map.2 ⟨b, hbx, rfl⟩
    · rcases List.mem_cons.1 hb with hbx | hbx
      · exfalso; apply hn1; rw [← hbx, ← hab]; exact List.mem_map.2 ⟨a, hax, rfl⟩
      · exact eq_of_nodup_map hn2 hax hbx hab

theorem ingestOne_cover {ns : Nat} {pend : List (Run ρ)} {x : Run ρ} (hu : (pend.map (·.startSeq)).Nodup) :
    ∀ z, (z ∈ pend ∨ (z = x ∧ ns ≤ x.startSeq)) →
      ∃ y ∈ ingestOne ns pend x, y.startSeq = z.startSeq ∧ z.hist.length ≤ y.hist.length := by
  intro z hz
  unfold ingestOne
  split
  · next hlt =>
    rcases hz with hz | ⟨_, hge⟩
    · exact ⟨z, hz, rfl, Nat.le_refl _⟩
    · omega
  · split
    · rcases hz with hz | ⟨rfl, _⟩
      · exact ⟨z, List.mem_append_left _ hz, rfl, Nat.le_refl _⟩
      · exact ⟨z, List.mem_append_right _ (List.mem_singleton.2 rfl), rfl, Nat.le_refl _⟩
    · next cur hf =>
      have hcur : cur ∈ pend := List.mem_of_find?_eq_some hf
      have hcs : cur.startSeq = x.startSeq := by simpa using List.find?_some hf
      split
      · next hlt =>
        have hxin : x ∈ pend.map (fun y => if (y.startSeq == x.startSeq) = true then x else y) :=
          List.mem_map.2 ⟨cur, hcur, by simp [hcs]⟩
        rcases hz with hz | ⟨rfl, _⟩
        · by_cases hzs : z.startSeq = x.startSeq
          · have : z = cur := eq_of_nodup_map hu hz hcur (by rw [hzs, hcs])
            subst this
            exact ⟨x, hxin, hzs.symm, Nat.le_of_lt hlt⟩
          · exact ⟨z, List.mem_map.2 ⟨z, hz, by simp [hzs]⟩, rfl, Nat.le_refl _⟩
        · exact ⟨z, hxin, rfl, Nat.le_refl _⟩
      · next hnlt =>
        rcases hz with hz | ⟨rfl, _⟩
        · exact ⟨z, hz, rfl, Nat.le_refl _⟩
        · exact ⟨cur, hcur, hcs, by omega⟩

theorem ingest_cover {ns : Nat} : ∀ (cs pend : List (Run ρ)), (pend.map (·.startSeq)).Nodup →
    ∀ z, (z ∈ pend ∨ (z ∈ cs ∧ ns ≤ z.startSeq)) →
      ∃ y ∈ ingest ns pend cs, y.startSeq = z.startSeq ∧ z.hist.length ≤ y.hist.length
  | [], pend, hu, z, hz => by
    rcases hz with hz | ⟨hz, _⟩
    · exact ⟨z, by simpa [ingest] using hz, rfl, Nat.le_refl _⟩
    · cases hz
  | x :: cs, pend, hu, z, hz => by
    have hu' := ingestOne_uniq (ns := ns) x hu
    have step : ingest ns pend (x :: cs) = ingest ns (ingestOne ns pend x) cs := by simp [ingest]
    rw [step]
    have first : (z ∈ pend ∨ (z = x ∧ ns ≤ x.startSeq)) → ∃ y ∈ ingest ns (ingestOne ns pend x) cs,
        y.startSeq = z.startSeq ∧ z.hist.length ≤ y.hist.length := by
      intro h1
      obtain ⟨y1, hy1, hs1, hl1⟩ := ingestOne_cover hu z h1
      obtain ⟨y2, hy2, hs2, hl2⟩ := ingest_cover cs _ hu' y1 (Or.inl hy1)
      exact ⟨y2, hy2, by rw [hs2, hs1], by omega⟩
    rcases hz with hz | ⟨hz, hge⟩
    · exact first (Or.inl hz)
    · rcases List.mem_cons.1 hz with rfl | hz
      · exact first (Or.inr ⟨rfl, hge⟩)
      · exact ingest_cover cs _ hu' z (Or.inr ⟨hz, hge⟩)

theorem minStart_le {ns : Nat} : ∀ {pend : List (Run ρ)} {y : Run ρ}, y ∈ pend → ns ≤ y.startSeq →
    ∃ b, minStart ns pend = some b ∧ b.startSeq ≤ y.startSeq
  | [], y, hy, _ => by cases hy
  | r :: rs, y, hy, hge => by
    simp only [minStart]
    cases hm : minStart ns rs with
    | none =>
      simp only
      rcases List.mem_cons.1 hy with rfl | hy
      · rw [if_pos hge]; exact ⟨_, rfl, Nat.le_refl _⟩
      · obtain ⟨b, hb, _⟩ := minStart_le hy hge
        rw [hm] at hb; cases hb
    | some b' =>
      simp only
      by_cases hc : ns ≤ r.startSeq ∧ r.startSeq ≤ b'.startSeq
      · rw [if_pos hc]
        rcases List.mem_cons.1 hy with rfl | hy
        · exact ⟨_, rfl, Nat.le_refl _⟩
        · obtain ⟨b, hb, hle⟩ := minStart_le hy hge
          rw [hm] at hb; cases hb
          exact ⟨_, rfl, by omega⟩
      · rw [if_neg hc]
        rcases List.mem_cons.1 hy with rfl | hy
        · exact ⟨_, rfl, by omega⟩
        · obtain ⟨b, hb, hle⟩ := minStart_le hy hge
          rw [hm] at hb; cases hb
          exact ⟨_, rfl, hle⟩

theorem length_filter_lt {α : Type} (p : α → Bool) : ∀ {l : List α} {a : α}, a ∈ l → p a = false →
    (l.filter p).length < l.length
  | [], a, ha, _ => by cases ha
  | x :: xs, a, ha, hp => by
    rcases List.mem_cons.1 ha with hax | hax
    · subst hax
      rw [List.filter_cons_of_neg (by simp [hp]), List.length_cons]
      exact Nat.lt_succ_of_le (List.length_filter_le _ _)
    · have ih := length_filter_lt p hax hp
      by_cases hx : p x = true
      · rw [List.filter_cons_of_pos hx, List.length_cons, List.length_cons]; omega
      · rw [List.filter_cons_of_neg hx, List.length_cons]; omega

theorem emitGreedy_cover (c : Cfg ρ) : ∀ (f : Nat) (s : ES ρ), s.surv = [] → (s.pending.map (·.startSeq)).Nodup →
    s.pending.length < f → (∀ x ∈ s.pending, x.hist ≠ []) →
    ∀ y ∈ s.pending, s.nextStart ≤ y.startSeq →
      ∃ m ∈ (emitGreedy c f s).2, m.startSeq ≤ y.startSeq ∧ y.startSeq < skipToM c m.startSeq m.rows ∧
        (m.startSeq = y.startSeq → m.rows = y.hist)
  | 0, s, _, _, hlen, _, _, _, _ => by omega
  | f+1, s, hsurv, hu, hlen, hne, y, hy, hge => by
    obtain ⟨b, hm, hble⟩ := minStart_le hy hge
    obtain ⟨hb, _⟩ := minStart_mem hm
    unfold emitGreedy
    rw [hm]
    simp only
    have hnb : blocked s.surv b.startSeq = false := by rw [hsurv]; rfl
    rw [hnb]
    simp only [Bool.false_eq_true, if_false, consMatch]
    by_cases hcov : y.startSeq < skipTo c b
    · refine ⟨mkMatch s b, List.mem_cons_self .., hble, ?_, ?_⟩
      · simpa [mkMatch, skipTo_eq] using hcov
      · intro he
        have : b = y := eq_of_nodup_map hu hb hy he
        subst this; rfl
    · have hgt : b.startSeq < skipTo c b := by rw [skipTo_eq]; exact skipToM_gt c _ _ (hne b hb)
      have hy' : y ∈ (emitOne c s b).pending := by
        simp only [emitOne]
        refine List.mem_filter.2 ⟨hy, ?_⟩
        simp; omega
      have hlt : (emitOne c s b).pending.length < s.pending.length := by
        simp only [emitOne]
        exact length_filter_lt _ hb (by simp)
      obtain ⟨m, hm', h1, h2, h3⟩ := emitGreedy_cover c f (emitOne c s b) (by simp [emitOne, hsurv])
        (nodup_sublist_map (emitOne_sub c s b) hu) (by omega)
        (fun x hx => hne x (emitOne_pending c s b x hx)) y hy' (by simp [emitOne]; omega)
      exact ⟨m, List.mem_cons_of_mem _ hm', h1, h2, h3⟩

/-- After `Flush` (greedy mode) every accepting candidate of the partition that is not behind
`nextStart` — a pending completion or a live accepting run — is either reported, or a longer
match from the same start is, or it lies inside the rows skipped by a reported match that starts earlier. -/
theorem flushPart_cover {c : Cfg ρ} {H : List ρ} {p : Part ρ} (hl : c.lazy = false) (h : Inv c H p) :
    ∀ x, (x ∈ p.pending ∨ (x ∈ p.runs ∧ runAccepting c x = true)) → p.nextStart ≤ x.startSeq →
      ∃ m ∈ (flushPart c p).2, m.startSeq ≤ x.startSeq ∧ x.startSeq < skipToM c m.startSeq m.rows ∧
        (m.startSeq = x.startSeq → x.hist.length ≤ m.rows.length) := by
  intro x hx hge
  have hcov : ∃ y ∈ (flushStart c p).pending, y.startSeq = x.startSeq ∧ x.hist.length ≤ y.hist.length := by
    unfold flushStart
    apply ingest_cover _ _ h.uniq
    rcases hx with hx | ⟨hx, hacc⟩
    · exact Or.inl hx
    · exact Or.inr ⟨List.mem_filter.2 ⟨hx, hacc⟩, hge⟩
  obtain ⟨y, hy, hys, hyl⟩ := hcov
  have hp := flushStart_pending h
  obtain ⟨m, hm, h1, h2, h3⟩ := emitGreedy_cover c ((flushStart c p).pending.length + 1) (flushStart c p) rfl
    (by unfold flushStart; exact ingest_uniq _ _ h.uniq) (Nat.lt_succ_self _)
    (fun z hz => (hp z hz).2.1) y hy (by rw [hys]; exact hge)
  refine ⟨m, ?_, by omega, by omega, ?_⟩
  · unfold flushPart emitFlush
    simp only [hl, Bool.false_eq_true, if_false]
    exact hm
  · intro he
    rw [h3 (by omega)]
    exact hyl

end
end Cep
