/-
Helper lemmas for C02 (sliding windows, ALLOWEDLATENESS > 0): in every reachable state every
interval delivered so far is still registered for late rows, or its allowance lies at or below
the watermark.  Together with `every_open_window_redelivered` (step level) this gives the
run-level late-update theorem of `Props/C02`.
Core Lean only.
-/
import SsqlVerif.Proofs.SlidingLate
import SsqlVerif.Proofs.TumblingInv
set_option autoImplicit false
set_option linter.unusedVariables false
set_option linter.unusedSimpArgs false

namespace SlidingLate
open Wm Tumbling Sliding

/-- what the trigger loop reads is at or below the watermark -/
structure WmInv (s : SWL) : Prop where
  htrig : ∀ w, s.base.trigW = some w → leOpt w s.base.wm.cur
  hchan : ∀ w ∈ s.base.wm.chan, leOpt w s.base.wm.cur

theorem wmInv_init (size slide ooo lateness : Int) : WmInv (init size slide ooo lateness) :=
  { htrig := by intro w h; cases h
    hchan := by intro w h; cases h }

theorem addBase_wm (s : SWL) (r : Row) (now : Int) :
    (addBase s r now).wm = Sliding.wmAfter s.base r now ∧ (addBase s r now).trigW = s.base.trigW := by
  unfold addBase
  split
  · exact ⟨rfl, rfl⟩
  · exact ⟨rfl, rfl⟩

theorem stepIter_base_wm (s : SWL) : (stepIter s).1.base.wm = s.base.wm := by
  unfold stepIter
  split
  · split
    · unfold Sliding.fireOrSkip; split <;> rfl
    · unfold Sliding.stepIter; simp [*]
  · unfold Sliding.stepIter
    split <;> (try split) <;> first | rfl | (unfold Sliding.fireOrSkip; split <;> rfl)

theorem stepIter_base_trigW (s : SWL) (w : Int) (h : (stepIter s).1.base.trigW = some w) : s.base.trigW = some w := by
  unfold stepIter at h
  split at h
  · rename_i w' c ht hc
    split at h
    · unfold Sliding.fireOrSkip at h
      split at h <;> simpa using h
    · unfold Sliding.stepIter at h
      simp [ht, hc, *] at h
  · unfold Sliding.stepIter at h
    split at h
    · split at h
      · unfold Sliding.fireOrSkip at h; split at h <;> simpa using h
      · simp at h
    · simp at h
    · exact h

theorem wmInv_step (s : SWL) (op : Sliding.Op) (h : WmInv s) : WmInv (step s op).1 := by
  cases op with
  | add r now =>
    obtain ⟨hw, ht⟩ := addBase_wm s r now
    refine { htrig := ?_, hchan := ?_ }
    · intro w hwt
      show leOpt w (addBase s r now).wm.cur
      rw [hw]
      have : s.base.trigW = some w := by rw [← ht]; exact hwt
      exact Tumbling.updateEventTime_cur _ _ _ _ (h.htrig w this)
    · intro w hwc
      show leOpt w (addBase s r now).wm.cur
      have hwc' : w ∈ (addBase s r now).wm.chan := hwc
      rw [hw] at hwc' ⊢
      exact Tumbling.updateEventTime_chan _ _ _ _ h.hchan hwc'
  | addNoTs => exact h
  | tick idle now =>
    exact { htrig := fun w hw => Tumbling.tick_cur _ _ _ _ (h.htrig w hw)
            hchan := fun w hw => Tumbling.tick_chan _ _ _ _ h.hchan hw }
  | pop =>
    show WmInv (stepPop s)
    unfold stepPop Sliding.stepPop
    split
    · rename_i w wm' htn hp
      obtain ⟨hmem, hcur, hsub⟩ := Tumbling.pop_mem _ _ _ hp
      refine { htrig := ?_, hchan := ?_ }
      · intro w' hw'
        simp only [Option.some.injEq] at hw'
        show leOpt w' wm'.cur
        rw [← hw', hcur]; exact h.hchan w hmem
      · intro y hy
        show leOpt y wm'.cur
        rw [hcur]; exact h.hchan y (hsub y hy)
    · exact h
  | iter =>
    refine { htrig := ?_, hchan := ?_ }
    · intro w hw
      show leOpt w (stepIter s).1.base.wm.cur
      rw [stepIter_base_wm]
      exact h.htrig w (stepIter_base_trigW s w hw)
    · intro w hw
      have hw' : w ∈ (stepIter s).1.base.wm.chan := hw
      show leOpt w (stepIter s).1.base.wm.cur
      rw [stepIter_base_wm] at hw' ⊢
      exact h.hchan w hw'

/-- `f` is the registration of the delivered interval `e` -/
def RegFor (lat : Int) (e : Emission) (f : Fired) : Prop := f.start = e.start ∧ f.close = e.stop + lat

/-- every first delivery among `es` is registered in `s`, or its allowance is at or below the watermark -/
def Reg (s : SWL) (es : List Emission) : Prop :=
  ∀ e ∈ es, e.kind = .first →
    (∃ f ∈ s.fired, RegFor s.lateness e f) ∨ leOpt (e.stop + s.lateness) s.base.wm.cur

theorem step_lateness (s : SWL) (op : Sliding.Op) : (step s op).1.lateness = s.lateness := by
  cases op with
  | add r now => rfl
  | addNoTs => rfl
  | tick idle now => rfl
  | pop => rfl
  | iter => exact stepIter_lateness s

theorem updFired_keeps (s : SWL) (ts : List Fired) (r : Row) (lat : Int) (e : Emission)
    (h : ∃ f ∈ s.fired, RegFor lat e f) : ∃ f ∈ updFired s ts r, RegFor lat e f := by
  obtain ⟨f, hf, hr⟩ := h
  unfold updFired
  by_cases ht : isTarget ts f = true
  · exact ⟨{ f with snap := lateRows s f r }, List.mem_map.mpr ⟨f, hf, by simp [ht]⟩, hr⟩
  · exact ⟨f, List.mem_map.mpr ⟨f, hf, by simp [ht]⟩, hr⟩

theorem add_emits_late (s : SWL) (r : Row) (now : Int) : ∀ e ∈ (stepAdd s r now none).2, e.kind = .late := by
  intro e he
  simp only [stepAdd, List.mem_map] at he
  obtain ⟨f, _, rfl⟩ := he
  rfl

theorem leOpt_mono_step (s : SWL) (op : Sliding.Op) (x : Int) (h : leOpt x s.base.wm.cur) :
    leOpt x (step s op).1.base.wm.cur := by
  cases op with
  | add r now =>
    show leOpt x (addBase s r now).wm.cur
    rw [(addBase_wm s r now).1]
    exact Tumbling.updateEventTime_cur _ _ _ _ h
  | addNoTs => exact h
  | tick idle now => exact Tumbling.tick_cur _ _ _ _ h
  | pop =>
    show leOpt x (stepPop s).base.wm.cur
    unfold stepPop Sliding.stepPop
    split
    · rename_i w wm' htn hp
      obtain ⟨_, hcur, _⟩ := Tumbling.pop_mem _ _ _ hp
      show leOpt x wm'.cur
      rw [hcur]; exact h
    · exact h
  | iter =>
    show leOpt x (stepIter s).1.base.wm.cur
    rw [stepIter_base_wm]; exact h

theorem reg_iter (s : SWL) (es : List Emission) (hi : WmInv s) (hl : 0 < s.lateness) (h : Reg s es) :
    Reg (stepIter s).1 (es ++ (stepIter s).2) := by
  intro e he hk
  rw [stepIter_lateness, stepIter_base_wm]
  unfold stepIter at he ⊢
  split
  · rename_i w c ht hc
    simp only [ht, hc] at he
    split
    · rename_i hle
      simp only [hle, if_true] at he
      -- a window fires (or is skipped): everything registered stays, the fired one is appended
      rcases List.mem_append.mp he with he | he
      · rcases h e he hk with ⟨f, hf, hr⟩ | hb
        · left
          refine ⟨f, ?_, hr⟩
          show f ∈ register s (Sliding.fireOrSkip s.base c).2
          unfold register
          simp only [hl, if_true]
          exact List.mem_append.mpr (Or.inl hf)
        · exact Or.inr hb
      · left
        refine ⟨{ start := e.start, close := e.stop + s.lateness, snap := e.rows }, ?_, rfl, rfl⟩
        show _ ∈ register s (Sliding.fireOrSkip s.base c).2
        unfold register
        simp only [hl, if_true]
        exact List.mem_append.mpr (Or.inr (List.mem_map.mpr ⟨e, he, rfl⟩))
    · rename_i hnle
      simp only [hnle, if_false, List.append_nil] at he
      -- end of the pass: entries whose allowance the delivered watermark has reached are dropped
      rcases h e he hk with ⟨f, hf, hr⟩ | hb
      · by_cases hc' : f.close ≤ w
        · right
          obtain ⟨y, hy, hwy⟩ := hi.htrig w ht
          exact ⟨y, hy, by rw [← hr.2]; omega⟩
        · left
          exact ⟨f, List.mem_filter.mpr ⟨hf, by simp; omega⟩, hr⟩
      · exact Or.inr hb
  · rename_i hno
    have he' : e ∈ es := by
      have : (Sliding.stepIter s.base).2 = [] := by
        unfold Sliding.stepIter
        split
        · rename_i w c ht hc; exact (hno w c ht hc).elim
        · rfl
        · rfl
      simpa [*] using he
    exact h e he' hk

theorem reg_step (s : SWL) (op : Sliding.Op) (es : List Emission) (hi : WmInv s) (hl : 0 < s.lateness) (h : Reg s es) :
    Reg (step s op).1 (es ++ (step s op).2) := by
  cases op with
  | add r now =>
    intro e he hk
    rcases List.mem_append.mp he with he | he
    · rcases h e he hk with hreg | hb
      · exact Or.inl (updFired_keeps s _ r s.lateness e hreg)
      · exact Or.inr (leOpt_mono_step s (.add r now) _ hb)
    · have := add_emits_late s r now e he
      rw [this] at hk; cases hk
  | addNoTs =>
    intro e he hk
    simp only [step, List.append_nil] at he
    exact h e he hk
  | tick idle now =>
    intro e he hk
    simp only [step, List.append_nil] at he
    rcases h e he hk with hreg | hb
    · exact Or.inl hreg
    · exact Or.inr (leOpt_mono_step s (.tick idle now) _ hb)
  | pop =>
    intro e he hk
    simp only [step, List.append_nil] at he
    rcases h e he hk with hreg | hb
    · exact Or.inl hreg
    · exact Or.inr (leOpt_mono_step s .pop _ hb)
  | iter => exact reg_iter s es hi hl h

theorem wmInv_run (s : SWL) (ops : List Sliding.Op) (h : WmInv s) : WmInv (run s ops).1 := by
  induction ops generalizing s with
  | nil => exact h
  | cons op ops ih => simp only [run]; exact ih _ (wmInv_step s op h)

theorem run_lateness (s : SWL) (ops : List Sliding.Op) : (run s ops).1.lateness = s.lateness := by
  induction ops generalizing s with
  | nil => rfl
  | cons op ops ih => simp only [run]; rw [ih, step_lateness]

theorem reg_run (s : SWL) (ops : List Sliding.Op) (es : List Emission) (hi : WmInv s) (hl : 0 < s.lateness) (h : Reg s es) :
    Reg (run s ops).1 (es ++ (run s ops).2) := by
  induction ops generalizing s es with
  | nil => simpa [run] using h
  | cons op ops ih =>
    simp only [run]
    have hl' : 0 < (step s op).1.lateness := by rw [step_lateness]; exact hl
    have := ih (step s op).1 (es ++ (step s op).2) (wmInv_step s op hi) hl' (reg_step s op es hi hl h)
    simpa [List.append_assoc] using this

end SlidingLate
