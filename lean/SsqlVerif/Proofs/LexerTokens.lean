/-
Helper lemmas for C11 (lexer layer), part 3: each kind of source token, spelled under any case
variation and followed by a byte that does not continue it, is read back by `tokenAt` as itself.
Core Lean only.
-/
import SsqlVerif.Proofs.LexerLayout
set_option autoImplicit false

namespace LexSpec
open Lexer

/-! ### case variation -/

theorem flipCase_letter (b : Byte) : isLetter (flipCase b) = isLetter b := by
  unfold flipCase
  by_cases h1 : isLower b = true
  · have r := isLower_range.1 h1
    have : isLetter b = true := isLetter_range.2 (by omega)
    rw [if_pos h1, this]; exact isLetter_range.2 (by omega)
  · rw [if_neg h1]
    by_cases h2 : isUpper b = true
    · have r := isUpper_range.1 h2
      have : isLetter b = true := isLetter_range.2 (by omega)
      rw [if_pos h2, this]; exact isLetter_range.2 (by omega)
    · rw [if_neg h2]

theorem flipCase_not_letter {b : Byte} (h : isLetter b = false) : flipCase b = b := by
  unfold flipCase
  have h1 : isLower b = false := by
    cases hl : isLower b with
    | false => rfl
    | true => have := isLetter_range.2 (Or.inl (isLower_range.1 hl)); simp [h] at this
  have h2 : isUpper b = false := by
    cases hl : isUpper b with
    | false => rfl
    | true => have := isLetter_range.2 (Or.inr (Or.inl (isUpper_range.1 hl))); simp [h] at this
  simp [h1, h2]

theorem flipCase_identChar (b : Byte) : isIdentChar (flipCase b) = isIdentChar b := by
  cases h : isLetter b with
  | true => simp [isIdentChar, flipCase_letter, h]
  | false => rw [flipCase_not_letter h]

theorem upper_flipCase (b : Byte) : upper (flipCase b) = upper b := by
  unfold flipCase
  by_cases h1 : isLower b = true
  · have r := isLower_range.1 h1
    have h3 : isLower (b - 32) = false := by
      cases hl : isLower (b - 32) with
      | false => rfl
      | true => have := isLower_range.1 hl; exfalso; omega
    simp [upper, h1, h3]
  · rw [if_neg h1]
    by_cases h2 : isUpper b = true
    · have r := isUpper_range.1 h2
      have h3 : isLower (b + 32) = true := isLower_range.2 (by omega)
      simp [upper, h2, h3, h1]
    · rw [if_neg h2]

theorem applyMask_map_upper (m : List Bool) (w : List Byte) : (applyMask m w).map upper = w.map upper := by
  induction w generalizing m with
  | nil => cases m with
    | nil => rfl
    | cons x m => cases x <;> rfl
  | cons b w ih =>
    cases m with
    | nil => rfl
    | cons x m => cases x <;> simp [applyMask, ih, upper_flipCase]

theorem applyMask_all (p : Byte → Bool) (hp : ∀ b, p (flipCase b) = p b) (m : List Bool) (w : List Byte)
    (h : ∀ c ∈ w, p c = true) : ∀ c ∈ applyMask m w, p c = true := by
  induction w generalizing m with
  | nil => cases m with
    | nil => simp [applyMask]
    | cons x m => cases x <;> simp [applyMask]
  | cons b w ih =>
    have hb := h b (by simp)
    have hw := ih (h := fun c hc => h c (by simp [hc]))
    cases m with
    | nil => simpa [applyMask] using h
    | cons x m =>
      cases x
      · intro c hc
        simp only [applyMask, List.mem_cons] at hc
        rcases hc with rfl | hc
        · exact hb
        · exact hw m c hc
      · intro c hc
        simp only [applyMask, List.mem_cons] at hc
        rcases hc with rfl | hc
        · rw [hp]; exact hb
        · exact hw m c hc

/-- a masked word still starts with a letter and continues with identifier characters -/
theorem applyMask_word (m : List Bool) (b : Byte) (tl : List Byte)
    (hb : isLetter b = true) (ht : ∀ c ∈ tl, isIdentChar c = true) :
    ∃ b' tl', applyMask m (b :: tl) = b' :: tl' ∧ isLetter b' = true ∧ ∀ c ∈ tl', isIdentChar c = true := by
  cases m with
  | nil => exact ⟨b, tl, rfl, hb, ht⟩
  | cons x m =>
    cases x
    · exact ⟨b, applyMask m tl, rfl, hb, applyMask_all _ flipCase_identChar m tl ht⟩
    · exact ⟨flipCase b, applyMask m tl, rfl, by rw [flipCase_letter]; exact hb,
        applyMask_all _ flipCase_identChar m tl ht⟩

theorem wordKind_applyMask (m : List Bool) (w : List Byte) : wordKind (applyMask m w) = wordKind w := by
  simp [wordKind, wordKindIn, applyMask_map_upper]

/-! ### the byte after a token must not continue it -/

/-- `R` (what follows the token in the input) does not continue token `a` -/
def okNext : Src → List Byte → Bool
  | .word _, R => !headSat isIdentChar R
  | .num _ _, R => !headSat isNumChar R
  | .op .minus, R => !nextIsDigit R
  | .op .eq1, R => !nextIsEq R
  | .op .gt, R => !nextIsEq R
  | .op .lt, R => !nextIsEq R
  | _, _ => true

/-- what `tokenAt` must answer for source token `a` spelled with mask `m` -/
def reads (a : Src) (m : List Bool) (R : List Byte) : Prop :=
  tokenAt (a.text m ++ R) = (⟨a.kind, a.text m⟩, (a.text m).length) ∧
  junkLen (a.text m ++ R) = 0 ∧ a.kind ≠ .eof ∧ 1 ≤ (a.text m).length

theorem reads_word (w : List Byte) (m : List Bool) (R : List Byte)
    (hv : (Src.word w).valid = true) (hn : okNext (.word w) R = true) : reads (.word w) m R := by
  cases w with
  | nil => simp [Src.valid] at hv
  | cons b tl =>
    simp only [Src.valid, Bool.and_eq_true, List.all_eq_true] at hv
    obtain ⟨b', tl', he, hb', ht'⟩ := applyMask_word m b tl hv.1 hv.2
    have hR : headSat isIdentChar R = false := by simpa [okNext] using hn
    have hall : ∀ c ∈ b' :: tl', isIdentChar c = true := by
      intro c hc
      rcases List.mem_cons.1 hc with rfl | hc
      · exact isIdentChar_of_letter hb'
      · exact ht' c hc
    have htw : ((b' :: tl') ++ R).takeWhile isIdentChar = b' :: tl' := takeWhile_stop _ _ _ hall hR
    have hk : wordKind (b' :: tl') = wordKind (b :: tl) := by rw [← he]; exact wordKind_applyMask m _
    refine ⟨?_, ?_, ?_, ?_⟩
    · simp only [Src.text, he, Src.kind]
      simp only [List.cons_append, tokenAt, startOf_of_letter hb', wordAt]
      rw [← List.cons_append, htw, hk]
    · simp only [Src.text, he, List.cons_append]
      exact junkLen_cons_zero (by simp [isJunkAt, startOf_of_letter hb'])
    · exact wordKind_ne_eof _
    · simp [Src.text, he]

theorem reads_num (neg : Bool) (d : List Byte) (m : List Bool) (R : List Byte)
    (hv : (Src.num neg d).valid = true) (hn : okNext (.num neg d) R = true) : reads (.num neg d) m R := by
  cases d with
  | nil => simp [Src.valid] at hv
  | cons c tl =>
    simp only [Src.valid, Bool.and_eq_true, List.all_eq_true] at hv
    have hR : headSat isNumChar R = false := by simpa [okNext] using hn
    have hall : ∀ x ∈ c :: tl, isNumChar x = true := by
      intro x hx
      rcases List.mem_cons.1 hx with rfl | hx
      · exact isNumChar_of_digit hv.1
      · exact hv.2 x hx
    have htw : ((c :: tl) ++ R).takeWhile isNumChar = c :: tl := takeWhile_stop _ _ _ hall hR
    cases neg with
    | false =>
      refine ⟨?_, ?_, by simp [Src.kind], by simp [Src.text]⟩
      · simp only [Src.text, Src.kind, Bool.false_eq_true, if_false]
        simp only [List.cons_append, tokenAt, startOf_of_digit hv.1, numberAt]
        rw [← List.cons_append, htw]
      · simp only [Src.text, Bool.false_eq_true, if_false, List.cons_append]
        exact junkLen_cons_zero (by simp [isJunkAt, startOf_of_digit hv.1])
    | true =>
      refine ⟨?_, ?_, by simp [Src.kind], by simp [Src.text]⟩
      · simp only [Src.text, Src.kind, if_true]
        have h45 : startOf 45 = .minus := by decide
        simp only [List.cons_append, tokenAt, h45, minusAt, nextIsDigit, hv.1, if_true]
        rw [← List.cons_append, htw]
        simp
      · simp only [Src.text, if_true, List.cons_append]
        exact junkLen_cons_zero (by simp [isJunkAt, (by decide : startOf 45 = .minus)])

/-- a closed quoted literal (string with either quote, or backtick identifier) -/
theorem quotedAt_closed (k : Kind) (q : Byte) (body R : List Byte)
    (hb : ∀ c ∈ body, inLiteral q c = true) :
    quotedAt k q ((body ++ [q]) ++ R) = (⟨k, q :: (body ++ [q])⟩, (q :: (body ++ [q])).length) := by
  have hq : headSat (inLiteral q) (q :: R) = false := by simp [headSat, inLiteral]
  have e : (body ++ [q]) ++ R = body ++ (q :: R) := by simp
  rw [e]
  unfold quotedAt
  rw [takeWhile_stop _ _ _ hb hq, dropWhile_stop _ _ _ hb hq]
  simp [closedBy]

theorem reads_str (q : Byte) (body : List Byte) (m : List Bool) (R : List Byte)
    (hv : (Src.str q body).valid = true) : reads (.str q body) m R := by
  simp only [Src.valid, Bool.and_eq_true, Bool.or_eq_true, beq_iff_eq, List.all_eq_true] at hv
  have hb : ∀ c ∈ body, inLiteral q c = true := fun c hc => by simpa [inLiteral] using hv.2 c hc
  have hs : startOf q = .quote := by rcases hv.1 with h | h <;> subst h <;> decide
  refine ⟨?_, ?_, by simp [Src.kind], by simp [Src.text]⟩
  · simp only [Src.text, Src.kind, List.cons_append, tokenAt, hs]
    exact quotedAt_closed .string q body R hb
  · simp only [Src.text, List.cons_append]
    exact junkLen_cons_zero (by simp [isJunkAt, hs])

theorem reads_qid (body : List Byte) (m : List Bool) (R : List Byte)
    (hv : (Src.qid body).valid = true) : reads (.qid body) m R := by
  simp only [Src.valid, List.all_eq_true] at hv
  have hb : ∀ c ∈ body, inLiteral 96 c = true := fun c hc => by simpa [inLiteral] using hv c hc
  have hs : startOf 96 = .backtick := by decide
  refine ⟨?_, ?_, by simp [Src.kind], by simp [Src.text]⟩
  · simp only [Src.text, Src.kind, List.cons_append, tokenAt, hs]
    exact quotedAt_closed .qident 96 body R hb
  · simp only [Src.text, List.cons_append]
    exact junkLen_cons_zero (by simp [isJunkAt, hs])

theorem reads_op (o : Op) (m : List Bool) (R : List Byte)
    (hn : okNext (.op o) R = true) : reads (.op o) m R := by
  cases o <;>
    (refine ⟨?_, ?_, by simp [Src.kind, Op.kind], by simp [Src.text, Op.text]⟩
     · simp [Src.text, Op.text, Src.kind, Op.kind, tokenAt, startOf, punct, isLetter, isLower, isUpper,
         isDigit, isWs, cmpAt, bangAt, minusAt, nextIsEq, okNext] at hn ⊢ <;> simp [hn]
     · simp [Src.text, Op.text, junkLen, isJunkAt, startOf, punct, isLetter, isLower, isUpper, isDigit,
         isWs, nextIsEq])

/-- every well-formed source token, in any spelling, followed by anything that does not continue it -/
theorem reads_src (a : Src) (m : List Bool) (R : List Byte)
    (hv : a.valid = true) (hn : okNext a R = true) : reads a m R := by
  cases a with
  | word w => exact reads_word w m R hv hn
  | num neg d => exact reads_num neg d m R hv hn
  | str q body => exact reads_str q body m R hv
  | qid body => exact reads_qid body m R hv
  | op o => exact reads_op o m R hn

end LexSpec
