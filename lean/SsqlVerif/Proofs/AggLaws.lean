/-
C03 helper lemmas that need laws of arithmetic / of the order:
* `LawfulOrd`  : `lt` is a strict total order and `sort.Float64s` sorts by it
                 (true of float64 without NaN and without mixing -0/+0; true of `Rat`);
* `LawfulNum`  : additionally `+` is commutative and associative (false of float64, true of `Rat`).
Consequences: the model's insertion sort and the specification's merge sort agree, the
order-insensitive aggregates are invariant under permutation, min/max are the least/greatest
element.  `Rat` (Lean core's exact rationals) is an instance, so nothing here is vacuous.
-/
import SsqlVerif.Proofs.Agg
set_option autoImplicit false
set_option linter.unusedSectionVars false

namespace AggProofs
open Agg AggSpec NumOps

class LawfulOrd (ν : Type) [NumOps ν] : Prop where
  lt_irrefl : ∀ a : ν, lt a a = false
  lt_trans : ∀ a b c : ν, lt a b = true → lt b c = true → lt a c = true
  lt_connected : ∀ a b : ν, lt a b = false → lt b a = false → a = b
  sortLt_eq : ∀ a b : ν, sortLt a b = lt a b

class LawfulNum (ν : Type) [NumOps ν] : Prop extends LawfulOrd ν where
  add_comm : ∀ a b : ν, add a b = add b a
  add_assoc : ∀ a b c : ν, add (add a b) c = add a (add b c)

variable {ν : Type} [NumOps ν]

/-! ### order -/
section ord
variable [LawfulOrd ν]

/-- `le a b := ¬ b < a` as used by the specification's merge sort -/
def leB (a b : ν) : Bool := !sortLt b a

theorem leB_total (a b : ν) : (leB a b || leB b a) = true := by
  unfold leB
  rw [LawfulOrd.sortLt_eq, LawfulOrd.sortLt_eq]
  cases h1 : lt b a <;> cases h2 : lt a b <;> simp
  have := LawfulOrd.lt_trans _ _ _ h1 h2
  rw [LawfulOrd.lt_irrefl] at this
  cases this

theorem leB_trans (a b c : ν) : leB a b = true → leB b c = true → leB a c = true := by
  unfold leB
  rw [LawfulOrd.sortLt_eq, LawfulOrd.sortLt_eq, LawfulOrd.sortLt_eq]
  intro h1 h2
  simp only [Bool.not_eq_true'] at *
  -- ¬ b<a, ¬ c<b ⊢ ¬ c<a
  cases h3 : lt c a with
  | false => rfl
  | true =>
    -- c < a.  Compare b with c: either c<b (no), b<c, or b=c
    cases h4 : lt b c with
    | true =>
      have := LawfulOrd.lt_trans _ _ _ h4 h3
      rw [h1] at this; cases this
    | false =>
      have hbc : c = b := LawfulOrd.lt_connected c b h2 h4
      subst hbc
      rw [h1] at h3; cases h3

theorem leB_antisymm (a b : ν) : leB a b = true → leB b a = true → a = b := by
  unfold leB
  rw [LawfulOrd.sortLt_eq, LawfulOrd.sortLt_eq]
  intro h1 h2
  simp only [Bool.not_eq_true'] at *
  exact LawfulOrd.lt_connected a b h2 h1

theorem insertSorted_pairwise (x : ν) (l : List ν) (h : l.Pairwise (fun a b => leB a b = true)) :
    (insertSorted x l).Pairwise (fun a b => leB a b = true) := by
  induction l with
  | nil => simp [insertSorted]
  | cons y ys ih =>
    unfold insertSorted
    have hy := List.pairwise_cons.mp h
    by_cases hxy : sortLt x y = true
    · simp only [hxy, if_true]
      refine List.pairwise_cons.mpr ⟨?_, h⟩
      intro z hz
      have hxy' : leB x y = true := by
        unfold leB
        cases h' : sortLt y x with
        | false => rfl
        | true =>
          rw [LawfulOrd.sortLt_eq] at hxy h'
          have := LawfulOrd.lt_trans _ _ _ hxy h'
          rw [LawfulOrd.lt_irrefl] at this; cases this
      rcases List.mem_cons.mp hz with rfl | hz
      · exact hxy'
      · exact leB_trans _ _ _ hxy' (hy.1 z hz)
    · simp only [hxy]
      refine List.pairwise_cons.mpr ⟨?_, ih hy.2⟩
      intro z hz
      have hz' := (insertSorted_perm x ys).subset hz
      rcases List.mem_cons.mp hz' with rfl | hz'
      · unfold leB
        simp only [Bool.not_eq_true] at hxy
        simp [hxy]
      · exact hy.1 z hz'

theorem isort_pairwise (l : List ν) : (isort l).Pairwise (fun a b => leB a b = true) := by
  induction l with
  | nil => simp [isort]
  | cons x xs ih => unfold isort; exact insertSorted_pairwise x _ ih

theorem sorted_pairwise (l : List ν) : (sorted l).Pairwise (fun a b => leB a b = true) := by
  unfold sorted
  exact List.pairwise_mergeSort (le := fun a b => !sortLt b a)
    (fun a b c => leB_trans a b c) (fun a b => leB_total a b) l

/-- the model's sort and the specification's sort produce the same list -/
theorem isort_eq_sorted (l : List ν) : isort l = sorted l := by
  apply List.Perm.eq_of_pairwise (le := fun a b => leB a b = true)
  · intro a b _ _ h1 h2; exact leB_antisymm a b h1 h2
  · exact isort_pairwise l
  · exact sorted_pairwise l
  · exact (isort_perm l).trans (List.mergeSort_perm l _).symm

theorem sorted_perm_eq {l l' : List ν} (h : l.Perm l') : sorted l = sorted l' := by
  apply List.Perm.eq_of_pairwise (le := fun a b => leB a b = true)
  · intro a b _ _ h1 h2; exact leB_antisymm a b h1 h2
  · exact sorted_pairwise l
  · exact sorted_pairwise l'
  · exact ((List.mergeSort_perm l _).trans h).trans (List.mergeSort_perm l' _).symm

theorem sorted_length (l : List ν) : (sorted l).length = l.length := by
  unfold sorted; exact List.length_mergeSort l

theorem median_eq (l : List ν) : medianResult l = medianOf l := by
  unfold medianResult medianOf middle nthNum at0
  by_cases h0 : l.length = 0
  · simp [h0]
  · simp only [h0, if_false, isort_eq_sorted, sorted_length]
    by_cases h1 : l.length % 2 = 1
    · have : ¬ l.length % 2 = 0 := by omega
      simp [h1]
    · have : l.length % 2 = 0 := by omega
      simp [this]

theorem percentile_eq (p : ν) (l : List ν) : percentileResult p l = percentileOf p l := by
  unfold percentileResult percentileOf pctIndex nthNum at0
  by_cases h0 : l.length = 0
  · simp [h0]
  · simp only [h0, if_false, isort_eq_sorted]
    by_cases h1 : floorNat (mul p (ofNat (l.length - 1))) ≥ l.length
    · have : Nat.min (floorNat (mul p (ofNat (l.length - 1)))) (l.length - 1) = l.length - 1 := by
        apply Nat.min_eq_right; omega
      simp [h1, this]
    · have : Nat.min (floorNat (mul p (ofNat (l.length - 1)))) (l.length - 1)
          = floorNat (mul p (ofNat (l.length - 1))) := by
        apply Nat.min_eq_left; omega
      simp [h1, this]

/-! min / max are the least / greatest element -/

theorem least_fold_spec (xs : List ν) (m0 : ν) :
    let m := xs.foldl (fun m y => if lt y m then y else m) m0
    (m = m0 ∨ m ∈ xs) ∧ lt m0 m = false ∧ ∀ y ∈ xs, lt y m = false := by
  induction xs generalizing m0 with
  | nil => simp [LawfulOrd.lt_irrefl]
  | cons x xs ih =>
    simp only [List.foldl_cons]
    by_cases h : lt x m0 = true
    · simp only [h, if_true]
      obtain ⟨h1, h2, h3⟩ := ih x
      refine ⟨?_, ?_, ?_⟩
      · rcases h1 with h1 | h1
        · right; rw [h1]; exact List.mem_cons_self
        · right; exact List.mem_cons_of_mem _ h1
      · -- ¬ m0 < m  : otherwise x < m0 < m contradicts ¬ x < m
        cases h4 : lt m0 (xs.foldl (fun m y => if lt y m then y else m) x) with
        | false => rfl
        | true =>
          have := LawfulOrd.lt_trans _ _ _ h h4
          rw [h2] at this; cases this
      · intro y hy
        rcases List.mem_cons.mp hy with rfl | hy
        · exact h2
        · exact h3 y hy
    · simp only [Bool.not_eq_true] at h
      simp only [h, Bool.false_eq_true, if_false]
      obtain ⟨h1, h2, h3⟩ := ih m0
      refine ⟨?_, h2, ?_⟩
      · rcases h1 with h1 | h1
        · left; exact h1
        · right; exact List.mem_cons_of_mem _ h1
      · intro y hy
        rcases List.mem_cons.mp hy with rfl | hy
        · -- ¬ y < m0 and ¬ m0 < m ⊢ ¬ y < m
          cases h4 : lt y (xs.foldl (fun m y => if lt y m then y else m) m0) with
          | false => rfl
          | true =>
            -- y < m, ¬ m0 < m, ¬ y < m0: compare m0 and y
            cases h5 : lt m0 y with
            | true =>
              have := LawfulOrd.lt_trans _ _ _ h5 h4
              rw [h2] at this; cases this
            | false =>
              have : y = m0 := LawfulOrd.lt_connected y m0 h h5
              subst this
              rw [h2] at h4; cases h4
        · exact h3 y hy

theorem greatest_fold_spec (xs : List ν) (m0 : ν) :
    let m := xs.foldl (fun m y => if lt m y then y else m) m0
    (m = m0 ∨ m ∈ xs) ∧ lt m m0 = false ∧ ∀ y ∈ xs, lt m y = false := by
  induction xs generalizing m0 with
  | nil => simp [LawfulOrd.lt_irrefl]
  | cons x xs ih =>
    simp only [List.foldl_cons]
    by_cases h : lt m0 x = true
    · simp only [h, if_true]
      obtain ⟨h1, h2, h3⟩ := ih x
      refine ⟨?_, ?_, ?_⟩
      · rcases h1 with h1 | h1
        · right; rw [h1]; exact List.mem_cons_self
        · right; exact List.mem_cons_of_mem _ h1
      · cases h4 : lt (xs.foldl (fun m y => if lt m y then y else m) x) m0 with
        | false => rfl
        | true =>
          have := LawfulOrd.lt_trans _ _ _ h4 h
          rw [h2] at this; cases this
      · intro y hy
        rcases List.mem_cons.mp hy with rfl | hy
        · exact h2
        · exact h3 y hy
    · simp only [Bool.not_eq_true] at h
      simp only [h, Bool.false_eq_true, if_false]
      obtain ⟨h1, h2, h3⟩ := ih m0
      refine ⟨?_, h2, ?_⟩
      · rcases h1 with h1 | h1
        · left; exact h1
        · right; exact List.mem_cons_of_mem _ h1
      · intro y hy
        rcases List.mem_cons.mp hy with rfl | hy
        · cases h4 : lt (xs.foldl (fun m y => if lt m y then y else m) m0) y with
          | false => rfl
          | true =>
            cases h5 : lt y m0 with
            | true =>
              have := LawfulOrd.lt_trans _ _ _ h4 h5
              rw [h2] at this; cases this
            | false =>
              have : m0 = y := LawfulOrd.lt_connected m0 y h h5
              subst this
              rw [h2] at h4; cases h4
        · exact h3 y hy

/-- `least` returns a member that no member is below -/
theorem least_spec (l : List ν) (m : ν) (h : least l = some m) :
    m ∈ l ∧ ∀ y ∈ l, lt y m = false := by
  cases l with
  | nil => simp [least] at h
  | cons x xs =>
    simp only [least, Option.some.injEq] at h
    obtain ⟨h1, h2, h3⟩ := least_fold_spec xs x
    simp only [h] at h1 h2 h3
    refine ⟨?_, ?_⟩
    · rcases h1 with h1 | h1
      · rw [h1]; exact List.mem_cons_self
      · exact List.mem_cons_of_mem _ h1
    · intro y hy
      rcases List.mem_cons.mp hy with rfl | hy
      · exact h2
      · exact h3 y hy

theorem greatest_spec (l : List ν) (m : ν) (h : greatest l = some m) :
    m ∈ l ∧ ∀ y ∈ l, lt m y = false := by
  cases l with
  | nil => simp [greatest] at h
  | cons x xs =>
    simp only [greatest, Option.some.injEq] at h
    obtain ⟨h1, h2, h3⟩ := greatest_fold_spec xs x
    simp only [h] at h1 h2 h3
    refine ⟨?_, ?_⟩
    · rcases h1 with h1 | h1
      · rw [h1]; exact List.mem_cons_self
      · exact List.mem_cons_of_mem _ h1
    · intro y hy
      rcases List.mem_cons.mp hy with rfl | hy
      · exact h2
      · exact h3 y hy

theorem least_isSome (l : List ν) : (least l).isSome = !l.isEmpty := by
  cases l <;> simp [least]
theorem greatest_isSome (l : List ν) : (greatest l).isSome = !l.isEmpty := by
  cases l <;> simp [greatest]

theorem least_perm {l l' : List ν} (h : l.Perm l') : least l = least l' := by
  cases h1 : least l with
  | none =>
    have : l = [] := by cases l <;> simp_all [least]
    subst this
    have : l' = [] := h.symm.eq_nil
    subst this; rfl
  | some m =>
    cases h2 : least l' with
    | none =>
      have : l' = [] := by cases l' <;> simp_all [least]
      subst this
      have : l = [] := h.eq_nil
      subst this; simp [least] at h1
    | some m' =>
      obtain ⟨a1, a2⟩ := least_spec l m h1
      obtain ⟨b1, b2⟩ := least_spec l' m' h2
      have : m = m' := LawfulOrd.lt_connected m m' (b2 m (h.subset a1)) (a2 m' (h.symm.subset b1))
      rw [this]

theorem greatest_perm {l l' : List ν} (h : l.Perm l') : greatest l = greatest l' := by
  cases h1 : greatest l with
  | none =>
    have : l = [] := by cases l <;> simp_all [greatest]
    subst this
    have : l' = [] := h.symm.eq_nil
    subst this; rfl
  | some m =>
    cases h2 : greatest l' with
    | none =>
      have : l' = [] := by cases l' <;> simp_all [greatest]
      subst this
      have : l = [] := h.eq_nil
      subst this; simp [greatest] at h1
    | some m' =>
      obtain ⟨a1, a2⟩ := greatest_spec l m h1
      obtain ⟨b1, b2⟩ := greatest_spec l' m' h2
      have : m = m' := LawfulOrd.lt_connected m m' (a2 m' (h.symm.subset b1)) (b2 m (h.subset a1))
      rw [this]

theorem medianOf_perm {l l' : List ν} (h : l.Perm l') : medianOf l = medianOf l' := by
  unfold medianOf
  rw [sorted_perm_eq h, h.length_eq]

theorem percentileOf_perm (p : ν) {l l' : List ν} (h : l.Perm l') :
    percentileOf p l = percentileOf p l' := by
  unfold percentileOf
  rw [sorted_perm_eq h, h.length_eq]

end ord

/-! ### arithmetic -/
section arith
variable [LawfulNum ν]

theorem add_right_comm (z x y : ν) : add (add z x) y = add (add z y) x := by
  rw [LawfulNum.add_assoc, LawfulNum.add_comm x y, ← LawfulNum.add_assoc]

theorem total_perm {l l' : List ν} (h : l.Perm l') : total l = total l' := by
  unfold total
  exact h.foldl_eq' (fun x _ y _ z => add_right_comm z x y) _

theorem average_perm {l l' : List ν} (h : l.Perm l') : average l = average l' := by
  unfold average
  rw [total_perm h, h.length_eq]

theorem sqDevTotal_perm {l l' : List ν} (h : l.Perm l') : sqDevTotal l = sqDevTotal l' := by
  unfold sqDevTotal
  rw [average_perm h]
  exact total_perm (h.map _)

theorem sampleStdDev_perm {l l' : List ν} (h : l.Perm l') : sampleStdDev l = sampleStdDev l' := by
  unfold sampleStdDev
  rw [sqDevTotal_perm h, h.length_eq]

theorem sampleVariance_perm {l l' : List ν} (h : l.Perm l') : sampleVariance l = sampleVariance l' := by
  unfold sampleVariance
  rw [sqDevTotal_perm h, h.length_eq]

theorem populationVariance_perm {l l' : List ν} (h : l.Perm l') :
    populationVariance l = populationVariance l' := by
  unfold populationVariance
  rw [sqDevTotal_perm h, h.length_eq]

end arith

theorem nums_perm (e : Env ν) {l l' : List (Val ν)} (h : l.Perm l') : (nums e l).Perm (nums e l') :=
  h.filterMap _

theorem countNonNull_perm {l l' : List (Val ν)} (h : l.Perm l') : countNonNull l = countNonNull l' := by
  unfold countNonNull
  exact (h.filter _).length_eq

theorem numOrNull_perm {l l' : List ν} (f : List ν → ν) (h : l.Perm l') (hf : f l = f l') :
    numOrNull l f = numOrNull l' f := by
  cases l with
  | nil => have : l' = [] := h.symm.eq_nil
           subst this; rfl
  | cons a l =>
    cases l' with
    | nil => exact absurd h.eq_nil (by simp)
    | cons b l' => simp [numOrNull, hf]

/-! ### exact rationals are an instance -/

instance : NumOps Rat where
  add := (· + ·)
  sub := (· - ·)
  mul := (· * ·)
  div := (· / ·)
  ofNat n := (n : Rat)
  ofInt i := (i : Rat)
  lt a b := decide (a < b)
  sortLt a b := decide (a < b)
  sqrt x := x              -- a placeholder: no theorem depends on what `sqrt` is
  floorNat x := x.floor.toNat

instance : LawfulNum Rat where
  lt_irrefl a := by simp [NumOps.lt, Rat.lt_irrefl]
  lt_trans a b c h1 h2 := by
    simp only [NumOps.lt, decide_eq_true_eq] at *
    rw [Rat.lt_iff_le_and_not_ge]
    refine ⟨Rat.le_trans (Rat.le_of_lt h1) (Rat.le_of_lt h2), fun hca => ?_⟩
    exact (Rat.lt_iff_le_and_not_ge.mp h2).2 (Rat.le_trans hca (Rat.le_of_lt h1))
  lt_connected a b h1 h2 := by
    simp only [NumOps.lt, decide_eq_false_iff_not, Rat.not_lt] at *
    exact Rat.le_antisymm h2 h1
  sortLt_eq _ _ := rfl
  add_comm := Rat.add_comm
  add_assoc := Rat.add_assoc

end AggProofs
