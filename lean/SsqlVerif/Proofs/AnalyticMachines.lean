/-
Helper lemmas for C14: every analytic state machine computes its function's definition over
the whole history (the state is a closed-form function of the history).  Core Lean only.
-/
import SsqlVerif.Model.Analytic
import SsqlVerif.Spec.Analytic
set_option autoImplicit false
set_option linter.unusedSectionVars false
set_option linter.unusedSimpArgs false
set_option linter.unusedVariables false

namespace Analytic
open Spec

/-! ### generic: a state invariant that follows the history -/

namespace Machine
variable {σ α β : Type} (m : Machine σ α β)

theorem run_append (s : σ) (xs ys : List α) : m.run s (xs ++ ys) = m.run (m.run s xs) ys := by
  induction xs generalizing s with
  | nil => rfl
  | cons x xs ih => simp [run, ih]

theorem run_snoc (s : σ) (xs : List α) (a : α) : m.run s (xs ++ [a]) = (m.step (m.run s xs) a).1 := by
  rw [run_append]; rfl

/-- if `P` holds initially and is carried by every step (for well-formed inputs `W`), it holds
after every well-formed history -/
theorem run_inv (W : α → Prop) (P : σ → List α → Prop)
    (hstep : ∀ s h a, W a → P s h → P (m.step s a).1 (h ++ [a])) :
    ∀ (as : List α) (s : σ) (h : List α), (∀ a ∈ as, W a) → P s h → P (m.run s as) (h ++ as) := by
  intro as
  induction as with
  | nil => intro s h _ hp; simpa [run] using hp
  | cons a as ih =>
    intro s h hw hp
    have h1 := hstep s h a (hw a (by simp)) hp
    have h2 := ih (m.step s a).1 (h ++ [a]) (fun b hb => hw b (by simp [hb])) h1
    simpa [run, List.append_assoc] using h2

theorem run_inv_init (W : α → Prop) (P : σ → List α → Prop) (h0 : P m.init [])
    (hstep : ∀ s h a, W a → P s h → P (m.step s a).1 (h ++ [a]))
    (hist : List α) (hw : ∀ a ∈ hist, W a) : P (m.run m.init hist) hist := by
  have := run_inv m W P hstep hist m.init [] hw h0
  simpa using this

end Machine

section
variable {ν : Type} [NumOps ν]

/-! ### lag -/

theorem lastN_length {γ : Type} (k : Nat) (l : List γ) : (lastN k l).length = min k l.length := by
  unfold lastN; simp; omega

theorem lastN_of_le {γ : Type} (k : Nat) (l : List γ) (h : l.length ≤ k) : lastN k l = l := by
  unfold lastN
  have : l.length - k = 0 := by omega
  simp [this]

/-- truncating before appending loses nothing -/
theorem lastN_push {γ : Type} (k : Nat) (l : List γ) (v : γ) :
    lastN k (lastN k l ++ [v]) = lastN k (l ++ [v]) := by
  by_cases h : l.length ≤ k
  · rw [lastN_of_le k l h]
  · have hk : k < l.length := by omega
    unfold lastN
    have hlen : (List.drop (l.length - k) l ++ [v]).length - k = 1 := by simp; omega
    have hlen2 : (l ++ [v]).length - k = (l.length - k) + 1 := by simp; omega
    rw [hlen, hlen2]
    by_cases hk0 : k = 0
    · subst hk0; simp
    · have h1 : 1 ≤ (List.drop (l.length - k) l).length := by simp; omega
      have h2 : l.length - k + 1 ≤ l.length := by omega
      rw [List.drop_append_of_le_length h1, List.drop_drop, List.drop_append_of_le_length h2]

def recs (ign : Bool) (hist : List (LagIn ν)) : List (Val ν) := (hist.map (·.val)).filter (recorded ign)

theorem recs_snoc (ign : Bool) (hist : List (LagIn ν)) (a : LagIn ν) :
    recs ign (hist ++ [a]) = if recorded ign a.val then recs ign hist ++ [a.val] else recs ign hist := by
  unfold recs
  by_cases h : recorded ign a.val <;> simp [h, List.filter_append]

theorem lag_state (k : Nat) (ign : Bool) (hist : List (LagIn ν)) :
    (lagMachine k ign).run (lagMachine k ign).init hist = lastN k (recs ign hist) := by
  refine Machine.run_inv_init (lagMachine k ign) (fun _ => True)
    (fun s h => s = lastN k (recs ign h)) ?_ ?_ hist (fun _ _ => trivial)
  · simp [lagMachine, recs, lastN]
  · intro s h a _ hs
    subst hs
    show lagPush k ign (lastN k (recs ign h)) a.val = _
    rw [recs_snoc]
    unfold lagPush
    by_cases hr : recorded ign a.val
    · simp [hr, lastN_push]
    · simp [hr]

theorem lagResult_lastN (k : Nat) (hk : 1 ≤ k) (l : List (Val ν)) (d : Val ν) :
    lagResult k (lastN k l) d = (match l.reverse[k - 1]? with | some v => v | none => d) := by
  unfold lagResult
  rw [lastN_length]
  by_cases h : k ≤ l.length
  · have hm : min k l.length = k := by omega
    have hlt : k - 1 < l.length := by omega
    rw [hm, if_pos (Nat.le_refl k), List.getElem?_reverse hlt]
    have hidx : l.length - 1 - (k - 1) = l.length - k := by omega
    rw [hidx]
    have hlt2 : l.length - k < l.length := by omega
    unfold lastN
    simp [List.getD, List.getElem?_drop, hlt2]
  · have hm : min k l.length = l.length := by omega
    have hge : l.reverse.length ≤ k - 1 := by simp; omega
    rw [hm, if_neg h, List.getElem?_eq_none hge]

theorem lag_out (k : Nat) (hk : 1 ≤ k) (ign : Bool) (hist : List (LagIn ν)) (cur : LagIn ν) :
    (lagMachine k ign).out hist cur = lagSpec k ign hist cur := by
  unfold Machine.out
  rw [lag_state]
  show lagResult k (lastN k (recs ign hist)) cur.dflt = _
  rw [lagResult_lastN k hk]
  rfl

theorem effOffset_pos (n : Int) : 1 ≤ effOffset n := by
  unfold effOffset
  by_cases h : 0 < n
  · simp [h]; omega
  · simp [h]

/-! ### latest -/

def nonNulls (vals : List (Val ν)) : List (Val ν) := vals.filter (fun v => !v.isNull)

theorem latestUpd_getLast (l : List (Val ν)) (v : Val ν) :
    latestUpd (nonNulls l).getLast? v = (nonNulls (l ++ [v])).getLast? := by
  unfold latestUpd nonNulls
  by_cases h : v.isNull
  · simp [h, List.filter_append]
  · simp [h, List.filter_append]

theorem latest_state (hist : List (LagIn ν)) :
    (latestMachine (ν := ν)).run latestMachine.init hist = (nonNulls (hist.map (·.val))).getLast? := by
  refine Machine.run_inv_init latestMachine (fun _ => True)
    (fun s h => s = (nonNulls (h.map (·.val))).getLast?) ?_ ?_ hist (fun _ _ => trivial)
  · simp [latestMachine, nonNulls]
  · intro s h a _ hs
    subst hs
    show latestUpd _ a.val = _
    rw [latestUpd_getLast]; simp

theorem latest_out (hist : List (LagIn ν)) (cur : LagIn ν) :
    (latestMachine (ν := ν)).out hist cur = latestSpec hist cur := by
  unfold Machine.out
  rw [latest_state]
  show latestRes (latestUpd _ cur.val) cur.dflt = _
  rw [latestUpd_getLast]
  rfl

/-! ### changed_col and one column of changed_cols -/

theorem baseline_snoc (ign : Bool) (col : List (Val ν)) (v : Val ν) :
    baseline ign (col ++ [v]) = if recorded ign v then some v else baseline ign col := by
  unfold baseline
  by_cases h : recorded ign v <;> simp [h, List.filter_append]

theorem chgStep_fst (ign : Bool) (col : List (Val ν)) (v : Val ν) :
    (chgStep ign (baseline ign col) v).1 = baseline ign (col ++ [v]) := by
  rw [baseline_snoc]; unfold chgStep
  by_cases h : recorded ign v <;> simp [h]

theorem chgStep_snd (ign : Bool) (col : List (Val ν)) (v : Val ν) :
    (chgStep ign (baseline ign col) v).2 = chgSpec ign col v := by
  unfold chgStep chgSpec
  by_cases h : recorded ign v
  · simp only [h, if_true]
    cases hb : baseline ign col with
    | none => simp [chgChanged]
    | some p => by_cases he : aeq p v <;> simp [chgChanged, he]
  · simp [h]

theorem chg_state (ign : Bool) (hist : List (Val ν)) :
    (chgMachine ign).run (chgMachine ign).init hist = baseline ign hist := by
  refine Machine.run_inv_init (chgMachine ign) (fun _ => True)
    (fun s h => s = baseline ign h) ?_ ?_ hist (fun _ _ => trivial)
  · simp [chgMachine, baseline]
  · intro s h a _ hs
    subst hs
    exact chgStep_fst ign h a

theorem chg_out (ign : Bool) (hist : List (Val ν)) (v : Val ν) :
    (chgMachine ign).out hist v = chgSpec ign hist v := by
  unfold Machine.out
  rw [chg_state]
  exact chgStep_snd ign hist v

theorem changedCol_state (ign : Bool) (hist : List (Val ν)) :
    (changedColMachine ign).run (changedColMachine ign).init hist = baseline ign hist := by
  refine Machine.run_inv_init (changedColMachine ign) (fun _ => True)
    (fun s h => s = baseline ign h) ?_ ?_ hist (fun _ _ => trivial)
  · simp [changedColMachine, baseline]
  · intro s h a _ hs
    subst hs
    exact chgStep_fst ign h a

theorem changedCol_out (ign : Bool) (hist : List (Val ν)) (v : Val ν) :
    (changedColMachine ign).out hist v = changedColSpec ign hist v := by
  unfold Machine.out
  rw [changedCol_state]
  show ((chgStep ign (baseline ign hist) v).2).getD .null = _
  rw [chgStep_snd]; rfl

/-! ### acc_* -/

def accFold (kind : AccKind) (s : AccSt ν) (vals : List (Val ν)) : AccSt ν := vals.foldl (accAdd kind) s

theorem toNum_some_not_null (v : Val ν) (x : ν) (h : toNum v = some x) : v.isNull = false := by
  cases v <;> simp [toNum, Val.isNull] at h ⊢

def AccSt.withStarted (s : AccSt ν) (b : Bool) : AccSt ν := { s with started := b }

theorem withStarted_twice (s : AccSt ν) (a b : Bool) : (s.withStarted a).withStarted b = s.withStarted b := rfl
theorem withStarted_started (s : AccSt ν) (b : Bool) : (s.withStarted b).started = b := rfl
theorem withStarted_self (s : AccSt ν) : s.withStarted s.started = s := rfl

/-- `started` is carried through the accumulation untouched -/
theorem accAdd_started (kind : AccKind) (s : AccSt ν) (v : Val ν) (b : Bool) :
    accAdd kind (s.withStarted b) v = (accAdd kind s v).withStarted b := by
  unfold AccSt.withStarted
  unfold accAdd
  cases h : toNum v with
  | some x => cases kind <;> simp [accAddNum]
  | none =>
    unfold accAddOther
    by_cases hc : (kind = .count && !v.isNull) = true <;> simp [hc]


theorem accFold_snoc (kind : AccKind) (s : AccSt ν) (vals : List (Val ν)) (v : Val ν) :
    accFold kind s (vals ++ [v]) = accAdd kind (accFold kind s vals) v := by
  unfold accFold; simp [List.foldl_append]


theorem accResult_started (kind : AccKind) (s : AccSt ν) (b : Bool) :
    accResult kind (s.withStarted b) = accResult kind s := by
  cases kind <;> rfl

theorem numsOf_cons_some (v : Val ν) (vs : List (Val ν)) (x : ν) (h : toNum v = some x) :
    numsOf (v :: vs) = x :: numsOf vs := by simp [numsOf, h]

theorem numsOf_cons_none (v : Val ν) (vs : List (Val ν)) (h : toNum v = none) :
    numsOf (v :: vs) = numsOf vs := by simp [numsOf, h]

theorem accFold_cons (kind : AccKind) (s : AccSt ν) (v : Val ν) (vs : List (Val ν)) :
    accFold kind s (v :: vs) = accFold kind (accAdd kind s v) vs := rfl

theorem accFold_sumlike (kind : AccKind) (hk : kind = .sum ∨ kind = .avg) (vals : List (Val ν)) (s : AccSt ν) :
    (accFold kind s vals).sum = (numsOf vals).foldl NumOps.add s.sum ∧
    (accFold kind s vals).count = s.count + (numsOf vals).length := by
  induction vals generalizing s with
  | nil => simp [accFold, numsOf]
  | cons v vs ih =>
    rw [accFold_cons]
    cases h : toNum v with
    | some x =>
      rw [numsOf_cons_some v vs x h]
      have := ih (accAdd kind s v)
      rcases hk with hk | hk <;> subst hk <;> simp [accAdd, h, accAddNum] at this ⊢ <;>
        exact ⟨this.1, by omega⟩
    | none =>
      rw [numsOf_cons_none v vs h]
      have := ih (accAdd kind s v)
      rcases hk with hk | hk <;> subst hk <;> simpa [accAdd, h, accAddOther] using this

theorem accFold_count (vals : List (Val ν)) (s : AccSt ν) :
    (accFold .count s vals).count = s.count + (vals.filter (fun v => !v.isNull)).length := by
  induction vals generalizing s with
  | nil => simp [accFold]
  | cons v vs ih =>
    rw [accFold_cons, ih]
    cases h : toNum v with
    | some x =>
      have hn := toNum_some_not_null v x h
      simp [accAdd, h, accAddNum, hn]; omega
    | none =>
      by_cases hn : v.isNull = true
      · simp [accAdd, h, accAddOther, hn]
      · have hn' : v.isNull = false := by simpa using hn
        simp [accAdd, h, accAddOther, hn']; omega

def better (isMax : Bool) (v m : ν) : Bool := if isMax then NumOps.lt m v else NumOps.lt v m

theorem accFold_best_has (kind : AccKind) (isMax : Bool)
    (hk : (kind = .max ∧ isMax = true) ∨ (kind = .min ∧ isMax = false))
    (vals : List (Val ν)) (s : AccSt ν) (hs : s.hasNum = true) :
    (accFold kind s vals).hasNum = true ∧
    (accFold kind s vals).num = (numsOf vals).foldl (fun m v => if better isMax v m then v else m) s.num := by
  induction vals generalizing s with
  | nil => simp [accFold, numsOf, hs]
  | cons v vs ih =>
    rw [accFold_cons]
    cases h : toNum v with
    | some x =>
      rw [numsOf_cons_some v vs x h]
      rcases hk with ⟨hk, hm⟩ | ⟨hk, hm⟩ <;> subst hk <;> subst hm
      · have := ih (accAdd .max s v) (by simp [accAdd, h, accAddNum])
        simpa [accAdd, h, accAddNum, hs, better] using this
      · have := ih (accAdd .min s v) (by simp [accAdd, h, accAddNum])
        simpa [accAdd, h, accAddNum, hs, better] using this
    | none =>
      rw [numsOf_cons_none v vs h]
      rcases hk with ⟨hk, hm⟩ | ⟨hk, hm⟩ <;> subst hk <;> subst hm
      · have := ih (accAdd .max s v) (by simpa [accAdd, h, accAddOther] using hs)
        simpa [accAdd, h, accAddOther] using this
      · have := ih (accAdd .min s v) (by simpa [accAdd, h, accAddOther] using hs)
        simpa [accAdd, h, accAddOther] using this

theorem accFold_best_init (kind : AccKind) (isMax : Bool)
    (hk : (kind = .max ∧ isMax = true) ∨ (kind = .min ∧ isMax = false))
    (vals : List (Val ν)) (s : AccSt ν) (hs : s.hasNum = false) :
    (accFold kind s vals).hasNum = (numsOf vals).isEmpty.not ∧
    (∀ x xs, numsOf vals = x :: xs →
      (accFold kind s vals).num = xs.foldl (fun m v => if better isMax v m then v else m) x) := by
  induction vals generalizing s with
  | nil => simp [accFold, numsOf, hs]
  | cons v vs ih =>
    rw [accFold_cons]
    cases h : toNum v with
    | some x =>
      rw [numsOf_cons_some v vs x h]
      have hh : (accAdd kind s v).hasNum = true ∧ (accAdd kind s v).num = x := by
        rcases hk with ⟨hk, hm⟩ | ⟨hk, hm⟩ <;> subst hk <;> simp [accAdd, h, accAddNum, hs]
      have := accFold_best_has kind isMax hk vs (accAdd kind s v) hh.1
      refine ⟨by simpa using this.1, ?_⟩
      intro y ys hy
      simp only [List.cons.injEq] at hy
      rw [this.2, hh.2, hy.1, hy.2]
    | none =>
      rw [numsOf_cons_none v vs h]
      have hh : (accAdd kind s v) = s := by
        rcases hk with ⟨hk, hm⟩ | ⟨hk, hm⟩ <;> subst hk <;> simp [accAdd, h, accAddOther]
      rw [hh]; exact ih s hs

theorem foldBest_cons (b : ν → ν → Bool) (x : ν) (xs : List ν) :
    foldBest b (x :: xs) = some (xs.foldl (fun m v => if b v m then v else m) x) := rfl

/-- incremental accumulation = the aggregate of the counted values -/
theorem accResult_fold (kind : AccKind) (vals : List (Val ν)) :
    accResult kind (accFold kind accInit vals) = accAgg kind vals := by
  cases kind with
  | sum =>
    obtain ⟨h1, _⟩ := accFold_sumlike .sum (Or.inl rfl) vals (accInit (ν := ν))
    show Val.num (accFold .sum accInit vals).sum = Val.num _
    rw [h1]; rfl
  | avg =>
    obtain ⟨h1, h2⟩ := accFold_sumlike .avg (Or.inr rfl) vals (accInit (ν := ν))
    have h2' : (accFold .avg accInit vals).count = (numsOf vals).length := by rw [h2]; simp [accInit]
    show (if (accFold .avg accInit vals).count = 0 then Val.null else _) = _
    rw [h1, h2']; rfl
  | count =>
    have h := accFold_count vals (accInit (ν := ν))
    have h' : (accFold .count accInit vals).count = (vals.filter (fun v => !v.isNull)).length := by
      rw [h]; simp [accInit]
    show Val.int (accFold .count accInit vals).count = _
    rw [h']; rfl
  | max =>
    have := accFold_best_init .max true (Or.inl ⟨rfl, rfl⟩) vals (accInit (ν := ν)) rfl
    unfold accResult accAgg
    cases hn : numsOf vals with
    | nil => simp [this.1, hn, foldBest]
    | cons x xs => simp [this.1, hn, this.2 x xs hn, foldBest_cons, better]
  | min =>
    have := accFold_best_init .min false (Or.inr ⟨rfl, rfl⟩) vals (accInit (ν := ν)) rfl
    unfold accResult accAgg
    cases hn : numsOf vals with
    | nil => simp [this.1, hn, foldBest]
    | cons x xs => simp [this.1, hn, this.2 x xs hn, foldBest_cons, better]

/-! #### the start/reset phases -/

theorem afterLastReset_snoc_reset (rows : List (AccIn ν)) (a : AccIn ν) (h : a.reset = true) :
    afterLastReset true (rows ++ [a]) = [] := by
  simp [afterLastReset, h]

theorem afterLastReset_snoc_keep (hr : Bool) (rows : List (AccIn ν)) (a : AccIn ν)
    (h : (hr && a.reset) = false) :
    afterLastReset hr (rows ++ [a]) = afterLastReset hr rows ++ [a] := by
  cases hr with
  | false => simp [afterLastReset]
  | true =>
    have h' : a.reset = false := by simpa using h
    simp [afterLastReset, h']

theorem dropWhile_isEmpty (seg : List (AccIn ν)) :
    (seg.dropWhile (fun a => !a.start)).isEmpty = !seg.any (·.start) := by
  induction seg with
  | nil => rfl
  | cons a seg ih =>
    by_cases h : a.start = true
    · simp [List.dropWhile_cons, h]
    · have h' : a.start = false := by simpa using h
      simp [List.dropWhile_cons, h', ih]

/-- appending a row to the segment: it is skipped iff a start argument exists, the phase has not
started and the row does not start it -/
theorem fromFirstStart_snoc (hs : Bool) (seg : List (AccIn ν)) (a : AccIn ν) :
    fromFirstStart hs (seg ++ [a]) =
      if hs && !a.start && !seg.any (·.start) then fromFirstStart hs seg
      else fromFirstStart hs seg ++ [a] := by
  cases hs with
  | false => simp [fromFirstStart]
  | true =>
    simp only [fromFirstStart, if_true, Bool.true_and]
    rw [List.dropWhile_append, dropWhile_isEmpty]
    by_cases hany : seg.any (·.start) = true
    · simp [hany]
    · have hany' : seg.any (·.start) = false := by simpa using hany
      have hemp : seg.dropWhile (fun a => !a.start) = [] := by
        have := dropWhile_isEmpty seg
        rw [hany'] at this
        simpa using this
      by_cases hst : a.start = true
      · simp [hany', hst, hemp]
      · have hst' : a.start = false := by simpa using hst
        simp [hany', hst', hemp]

/-- the state after a history, in closed form -/
def accStateOf (kind : AccKind) (hs hr : Bool) (rows : List (AccIn ν)) : AccSt ν :=
  (accFold kind accInit (accCounted hs hr rows)).withStarted (hs && (afterLastReset hr rows).any (·.start))

theorem accStateOf_started (kind : AccKind) (hs hr : Bool) (rows : List (AccIn ν)) :
    (accStateOf kind hs hr rows).started = (hs && (afterLastReset hr rows).any (·.start)) := rfl

theorem accMark_withStarted (hs : Bool) (s : AccSt ν) (b : Bool) :
    accMark hs (s.withStarted b) = s.withStarted (hs || b) := by
  cases hs <;> rfl

theorem accInit_withStarted_false : (accInit (ν := ν)).withStarted false = accInit := rfl

theorem acc_step_stateOf (kind : AccKind) (hs hr : Bool) (rows : List (AccIn ν)) (a : AccIn ν) :
    accStep kind hs hr (accStateOf kind hs hr rows) a = accStateOf kind hs hr (rows ++ [a]) := by
  unfold accStep
  by_cases hreset : (hr && a.reset) = true
  · -- reset: back to the initial state, nothing counted
    rw [if_pos hreset]
    have hr' : hr = true := by cases hr <;> simp_all
    have ha : a.reset = true := by cases hr <;> simp_all
    subst hr'
    unfold accStateOf accCounted
    rw [afterLastReset_snoc_reset rows a ha]
    cases hs <;> rfl
  · have hreset' : (hr && a.reset) = false := by simpa using hreset
    rw [if_neg hreset]
    have hseg := afterLastReset_snoc_keep hr rows a hreset'
    have hcnt : accCounted hs hr (rows ++ [a]) =
        if hs && !a.start && !(afterLastReset hr rows).any (·.start) then accCounted hs hr rows
        else accCounted hs hr rows ++ [a.val] := by
      unfold accCounted
      rw [hseg, fromFirstStart_snoc]
      split <;> simp
    by_cases hskip : accSkips hs (accStateOf kind hs hr rows) a = true
    · rw [if_pos hskip]
      have hcond : (hs && !a.start && !(afterLastReset hr rows).any (·.start)) = true := by
        unfold accSkips at hskip
        rw [accStateOf_started] at hskip
        cases hs <;> simp_all
      have hst : a.start = false := by cases hs <;> simp_all
      have hany : (afterLastReset hr rows).any (·.start) = false := by cases hs <;> simp_all
      unfold accStateOf
      rw [hcnt, if_pos hcond, hseg]
      simp [List.any_append, hany, hst]
    · rw [if_neg hskip]
      have hcond : (hs && !a.start && !(afterLastReset hr rows).any (·.start)) = false := by
        unfold accSkips at hskip
        rw [accStateOf_started] at hskip
        cases hs <;> cases h1 : a.start <;> cases h2 : (afterLastReset hr rows).any (·.start) <;> simp_all
      unfold accStateOf
      rw [accMark_withStarted, accAdd_started, hcnt, hcond, hseg]
      simp only [Bool.false_eq_true, if_false]
      rw [accFold_snoc]
      congr 1
      -- the started flags agree
      cases hs with
      | false => simp
      | true =>
        cases h1 : a.start <;> cases h2 : (afterLastReset hr rows).any (·.start) <;>
          simp_all [List.any_append]

theorem acc_state (kind : AccKind) (hs hr : Bool) (hist : List (AccIn ν)) :
    (accMachine kind hs hr).run (accMachine kind hs hr).init hist = accStateOf kind hs hr hist := by
  refine Machine.run_inv_init (accMachine kind hs hr) (fun _ => True)
    (fun s h => s = accStateOf kind hs hr h) ?_ ?_ hist (fun _ _ => trivial)
  · show accInit = accStateOf kind hs hr []
    cases hs <;> cases hr <;> rfl
  · intro s h a _ hsx
    subst hsx
    exact acc_step_stateOf kind hs hr h a

theorem acc_out (kind : AccKind) (hs hr : Bool) (hist : List (AccIn ν)) (cur : AccIn ν) :
    (accMachine kind hs hr).out hist cur = accSpec kind hs hr hist cur := by
  unfold Machine.out
  rw [acc_state]
  show accResult kind (accStep kind hs hr (accStateOf kind hs hr hist) cur) = _
  rw [acc_step_stateOf]
  unfold accStateOf accSpec
  rw [accResult_started, accResult_fold]


/-! ### changed_cols: column-wise -/

theorem colsStep_length (ign : Bool) (vals : List (Val ν)) (st : List (Option (Val ν))) :
    (colsStep ign st vals).2.length = vals.length := by
  induction vals generalizing st with
  | nil => rfl
  | cons v vs ih => simp [colsStep, ih]

theorem headD_eq_getD {γ : Type} (l : List γ) (d : γ) : l.headD d = l.getD 0 d := by
  cases l <;> rfl

theorem tail_getD {γ : Type} (l : List γ) (j : Nat) (d : γ) : l.tail.getD j d = l.getD (j + 1) d := by
  cases l <;> simp [List.getD]

theorem colsStep_get (ign : Bool) (vals : List (Val ν)) (st : List (Option (Val ν))) (j : Nat)
    (hj : j < vals.length) :
    (colsStep ign st vals).1.getD j none = (chgStep ign (st.getD j none) (vals.getD j .null)).1 ∧
    (colsStep ign st vals).2.getD j none = (chgStep ign (st.getD j none) (vals.getD j .null)).2 := by
  induction vals generalizing st j with
  | nil => simp at hj
  | cons v vs ih =>
    cases j with
    | zero => simp [colsStep, List.head?_eq_getElem?]
    | succ j =>
      have hj' : j < vs.length := by simpa using hj
      have := ih st.tail j hj'
      simpa [colsStep, tail_getD] using this

theorem column_snoc (j : Nat) (hist : List (List (Val ν))) (r : List (Val ν)) :
    column j (hist ++ [r]) = column j hist ++ [r.getD j .null] := by
  simp [column]

theorem changedCols_state (ign : Bool) (n : Nat) (hist : List (List (Val ν)))
    (hw : ∀ r ∈ hist, r.length = n) (j : Nat) (hj : j < n) :
    ((changedColsMachine ign).run (changedColsMachine ign).init hist).getD j none =
      baseline ign (column j hist) := by
  refine Machine.run_inv_init (changedColsMachine ign) (fun r => r.length = n)
    (fun s h => s.getD j none = baseline ign (column j h)) ?_ ?_ hist hw
  · simp [changedColsMachine, baseline, column]
  · intro s h a ha hs
    show (colsStep ign s a).1.getD j none = _
    rw [(colsStep_get ign a s j (by omega)).1, hs, column_snoc, chgStep_fst]

theorem changedCols_out (ign : Bool) (n : Nat) (hist : List (List (Val ν))) (cur : List (Val ν))
    (hw : ∀ r ∈ hist, r.length = n) (hc : cur.length = n) :
    (changedColsMachine ign).out hist cur = changedColsSpec ign hist cur := by
  unfold Machine.out
  show (colsStep ign _ cur).2 = _
  apply List.ext_getElem
  · simp [colsStep_length, changedColsSpec]
  · intro j h1 h2
    have hj : j < cur.length := by simpa [colsStep_length] using h1
    have hget := (colsStep_get ign cur ((changedColsMachine ign).run (changedColsMachine ign).init hist) j hj).2
    rw [changedCols_state ign n hist hw j (by omega), chgStep_snd] at hget
    have e1 : (colsStep ign ((changedColsMachine ign).run (changedColsMachine ign).init hist) cur).2[j] =
        (colsStep ign ((changedColsMachine ign).run (changedColsMachine ign).init hist) cur).2.getD j none := by
      simp [List.getD, h1]
    rw [e1, hget]
    simp [changedColsSpec]

/-! ### had_changed -/

theorem any_congr_mem {γ : Type} (l : List γ) (p q : γ → Bool) (h : ∀ a ∈ l, p a = q a) : l.any p = l.any q := by
  induction l with
  | nil => rfl
  | cons a l ih =>
    simp only [List.any_cons]
    rw [h a (by simp), ih (fun b hb => h b (by simp [hb]))]

theorem hcNewPrev_length (ign : Bool) (vals prev : List (Val ν)) : (hcNewPrev ign prev vals).length = vals.length := by
  induction vals generalizing prev with
  | nil => rfl
  | cons v vs ih => simp [hcNewPrev, ih]

theorem hcNewPrev_get (ign : Bool) (vals prev : List (Val ν)) (j : Nat) (hj : j < vals.length) :
    (hcNewPrev ign prev vals).getD j .null =
      if recorded ign (vals.getD j .null) then vals.getD j .null else prev.getD j .null := by
  induction vals generalizing prev j with
  | nil => simp at hj
  | cons v vs ih =>
    cases j with
    | zero => simp [hcNewPrev, List.head?_eq_getElem?]
    | succ j =>
      have hj' : j < vs.length := by simpa using hj
      have := ih prev.tail j hj'
      simpa [hcNewPrev, tail_getD] using this

/-- `hcChanged` as a statement about column indices -/
theorem hcChanged_any (ign : Bool) (vals prev : List (Val ν)) :
    hcChanged ign prev vals = (List.range vals.length).any (fun j =>
      recorded ign (vals.getD j .null) &&
        (match prev[j]? with | none => true | some p => !aeq p (vals.getD j .null))) := by
  induction vals generalizing prev with
  | nil => rfl
  | cons v vs ih =>
    rw [hcChanged, ih prev.tail]
    simp only [List.length_cons, List.range_succ_eq_map, List.any_cons, List.any_map]
    congr 1
    · cases prev <;> simp [hcColChanged]
    · congr 1
      funext j
      cases prev <;> simp [Function.comp]

theorem baseline_single (ign : Bool) (x : Val ν) : (baseline ign [x]).getD .null = x := by
  unfold baseline
  by_cases h : recorded ign x
  · simp [h]
  · have hx : x.isNull = true := by
      unfold recorded at h; cases ign <;> simp_all
    cases x <;> simp_all [Val.isNull]

/-- state after a non-empty history of fixed arity: per column the baseline (NULL if none) -/
def HcInv (ign : Bool) (n : Nat) (s : Option (List (Val ν))) (h : List (List (Val ν))) : Prop :=
  (h = [] → s = none) ∧
  (h ≠ [] → ∃ prev, s = some prev ∧ prev.length = n ∧
    ∀ j, j < n → prev.getD j .null = (baseline ign (column j h)).getD .null)

theorem hadChanged_state (ign : Bool) (n : Nat) (hist : List (List (Val ν)))
    (hw : ∀ r ∈ hist, r.length = n) :
    HcInv ign n ((hadChangedMachine ign).run (hadChangedMachine ign).init hist) hist := by
  refine Machine.run_inv_init (hadChangedMachine ign) (fun r => r.length = n)
    (fun s h => HcInv ign n s h) ?_ ?_ hist hw
  · exact ⟨fun _ => rfl, fun h => absurd rfl h⟩
  · intro s h a ha hs
    refine ⟨fun hnil => by simp at hnil, fun _ => ?_⟩
    by_cases hh : h = []
    · subst hh
      have : s = none := hs.1 rfl
      subst this
      refine ⟨a, rfl, ha, ?_⟩
      intro j hj
      simp [column, baseline_single]
    · obtain ⟨prev, hsp, hlen, hcol⟩ := hs.2 hh
      subst hsp
      refine ⟨hcNewPrev ign prev a, rfl, by rw [hcNewPrev_length, ha], ?_⟩
      intro j hj
      rw [hcNewPrev_get ign a prev j (by omega), column_snoc, baseline_snoc]
      by_cases hr : recorded ign (a.getD j .null) = true
      · rw [if_pos hr, if_pos hr]; rfl
      · rw [if_neg hr, if_neg hr]; exact hcol j hj

theorem hadChanged_out (ign : Bool) (n : Nat) (hist : List (List (Val ν))) (cur : List (Val ν))
    (hw : ∀ r ∈ hist, r.length = n) (hc : cur.length = n) :
    (hadChangedMachine ign).out hist cur = hadChangedSpec ign hist cur := by
  unfold Machine.out
  have hinv := hadChanged_state ign n hist hw
  by_cases hh : hist = []
  · subst hh
    rfl
  · obtain ⟨prev, hsp, hlen, hcol⟩ := hinv.2 hh
    show (hcStep ign _ cur).2 = _
    rw [hsp]
    show hcChanged ign prev cur = _
    rw [hcChanged_any]
    unfold hadChangedSpec
    have hne : hist.isEmpty = false := by cases hist <;> simp_all
    rw [hne]
    simp only [Bool.false_eq_true, if_false]
    apply any_congr_mem
    intro j hj
    have hjn : j < n := by simpa [hc] using hj
    have hp : prev[j]? = some (prev.getD j .null) := by
      have : j < prev.length := by omega
      simp [List.getD, this]
    rw [hp, hcol j hjn]


end
end Analytic
