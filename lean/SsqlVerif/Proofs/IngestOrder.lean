/-
Helper lemmas for C19, part 5: a single producer's rows are processed in emission order when
the consumer receives under the read lock.
The rows on their way to query processing form one queue, `pipe` = processed rows, then the
rows already migrated to the new channel, then the rows still in the old/current channel.
Sends append to it, receives and migration steps do not change it.
Core Lean only.
-/
import SsqlVerif.Proofs.IngestFacts
set_option autoImplicit false
set_option linter.unusedVariables false
set_option linter.unusedSimpArgs false

namespace Ingest

def bufOf (s : State) (h : Nat) : List Row :=
  match s.chans[h]? with
  | some ch => ch.buf
  | none => []

def bufOpt (s : State) : Option Nat → List Row
  | none => []
  | some h => bufOf s h

/-- the rows buffered on the path to the consumer, in the order they will be received -/
def live (s : State) : List Row :=
  match s.mig with
  | some (_, o, n) => bufOf s n ++ bufOpt s o
  | none => bufOpt s s.curCh

def pipe (s : State) : List Row := s.processed ++ live s

def seqsOf (p : Nat) (l : List Row) : List Nat := (l.filter (fun r => r.prod == p)).map (·.seq)

/-- the sequence number a producer's next buffered row will have at least -/
def bnd (q : Prod) : Nat :=
  match q.cur with
  | some r => r.seq
  | none => q.next

def bound (s : State) (p : Nat) : Nat :=
  match s.prods[p]? with
  | some q => bnd q
  | none => 0

def OrdInv (s : State) : Prop :=
  ∀ p, List.Pairwise (· < ·) (seqsOf p (pipe s)) ∧ ∀ k ∈ seqsOf p (pipe s), k < bound s p

theorem seqsOf_append (p : Nat) (a b : List Row) : seqsOf p (a ++ b) = seqsOf p a ++ seqsOf p b := by
  simp [seqsOf, List.filter_append]

/-- same queue, bounds not smaller -/
theorem ord_same (s s' : State) (hpipe : pipe s' = pipe s) (hb : ∀ p, bound s p ≤ bound s' p)
    (h : OrdInv s) : OrdInv s' := by
  intro p
  rw [hpipe]
  refine ⟨(h p).1, ?_⟩
  intro k hk
  have := (h p).2 k hk
  have := hb p
  omega

/-- the queue lost its tail -/
theorem ord_prefix (s s' : State) (t : List Row) (hpipe : pipe s = pipe s' ++ t) (hb : ∀ p, bound s p ≤ bound s' p)
    (h : OrdInv s) : OrdInv s' := by
  intro p
  have h1 := (h p).1
  have h2 := (h p).2
  rw [hpipe, seqsOf_append] at h1 h2
  refine ⟨(List.pairwise_append.mp h1).1, ?_⟩
  intro k hk
  have := h2 k (List.mem_append_left _ hk)
  have := hb p
  omega

/-- producer `i`'s row joins the end of the queue -/
theorem ord_push (s s' : State) (i : Nat) (rows : List Row) (hpipe : pipe s' = pipe s ++ rows)
    (hrows : ∀ r ∈ rows, r.prod = i ∧ r.seq = bound s i ∧ rows = [r])
    (hb : ∀ p, p ≠ i → bound s p ≤ bound s' p) (hbi : ∀ r ∈ rows, r.seq < bound s' i)
    (hbi' : rows = [] → bound s i ≤ bound s' i)
    (h : OrdInv s) : OrdInv s' := by
  intro p
  rw [hpipe, seqsOf_append]
  cases rows with
  | nil =>
    simp only [seqsOf, List.filter_nil, List.map_nil, List.append_nil]
    refine ⟨(h p).1, ?_⟩
    intro k hk
    have h1 := (h p).2 k hk
    by_cases hp : p = i
    · subst hp; have := hbi' rfl; omega
    · have := hb p hp; omega
  | cons r rest =>
    obtain ⟨hr1, hr2, hr3⟩ := hrows r (by simp)
    simp at hr3; subst hr3
    by_cases hp : p = i
    · subst hp
      have hs : seqsOf p [r] = [r.seq] := by simp [seqsOf, hr1]
      rw [hs]
      have hlt := hbi r (by simp)
      constructor
      · rw [List.pairwise_append]
        refine ⟨(h p).1, by simp, ?_⟩
        intro a ha b hb'
        simp at hb'; subst hb'
        have := (h p).2 a ha
        omega
      · intro k hk
        rcases List.mem_append.mp hk with hk | hk
        · have := (h p).2 k hk
          omega
        · simp at hk; subst hk
          exact hlt
    · have hs : seqsOf p [r] = [] := by
        simp [seqsOf]; intro h; exact hp (by rw [← h, hr1])
      rw [hs, List.append_nil]
      refine ⟨(h p).1, ?_⟩
      intro k hk
      have := (h p).2 k hk
      have := hb p hp
      omega

theorem bound_set_ne (s : State) (ps : List Prod) (i p : Nat) (q : Prod) (h : p ≠ i) :
    (match (s.prods.set i q)[p]? with | some q => bnd q | none => 0) = bound s p := by
  rw [getElem?_set_ne' _ _ _ _ h]; rfl

end Ingest

namespace Ingest

theorem bound_set (s s' : State) (i : Nat) (q p0 : Prod) (hprods : s'.prods = s.prods.set i q)
    (hi : s.prods[i]? = some p0) :
    (∀ p, p ≠ i → bound s' p = bound s p) ∧ bound s' i = bnd q ∧ bound s i = bnd p0 := by
  refine ⟨?_, ?_, ?_⟩
  · intro p hp
    simp only [bound, hprods]
    rw [getElem?_set_ne' _ _ _ _ hp]
  · simp only [bound, hprods]
    rw [getElem?_set_self' _ _ _ _ hi]
  · simp only [bound, hi]

theorem bnd_le_next (i : Nat) (p : Prod) (hcur : ∀ r, p.cur = some r → r = ⟨i, p.next - 1⟩ ∧ 0 < p.next) :
    bnd p ≤ p.next := by
  unfold bnd
  cases hc : p.cur with
  | none => simp
  | some r =>
    obtain ⟨h1, h2⟩ := hcur r hc
    subst h1
    simp

theorem pipe_apply (s0 : State) (i : Nat) (p : Prod) (nx : Next) : pipe (nx.apply s0 i p) = pipe s0 := by
  cases nx <;> rfl

theorem ord_apply (s0 : State) (i : Nat) (p p0 : Prod) (nx : Next) (hi : s0.prods[i]? = some p0)
    (hb : bnd p0 ≤ bnd (nx.rec' p)) (h : OrdInv s0) : OrdInv (nx.apply s0 i p) := by
  obtain ⟨h1, h2, h3⟩ := bound_set s0 (nx.apply s0 i p) i (nx.rec' p) p0 (apply_prods s0 i p nx) hi
  refine ord_same s0 _ (pipe_apply s0 i p nx) ?_ h
  intro q
  by_cases hq : q = i
  · subst hq; rw [h2, h3]; exact hb
  · rw [h1 q hq]; exact Nat.le_refl _

theorem bnd_rec' (i : Nat) (p : Prod) (nx : Next)
    (hcur : ∀ r, p.cur = some r → r = ⟨i, p.next - 1⟩ ∧ 0 < p.next) : bnd p ≤ bnd (nx.rec' p) := by
  cases nx with
  | goto pc => exact Nat.le_refl _
  | drop => exact bnd_le_next i p hcur
  | exit => exact bnd_le_next i p hcur

/-- the plain producer step -/
theorem ord_plain (s0 : State) (i : Nat) (p : Prod) (nx : Next) (hi : s0.prods[i]? = some p)
    (hcur : ∀ r, p.cur = some r → r = ⟨i, p.next - 1⟩ ∧ 0 < p.next) (h : OrdInv s0) :
    OrdInv (nx.apply s0 i p) :=
  ord_apply s0 i p p nx hi (bnd_rec' i p nx hcur) h

/-- fields the queue and the bounds do not read -/
theorem ord_congr (s s' : State) (h1 : s'.prods = s.prods) (h2 : s'.chans = s.chans) (h3 : s'.processed = s.processed)
    (h4 : s'.mig = s.mig) (h5 : s'.curCh = s.curCh) (h : OrdInv s) : OrdInv s' := by
  refine ord_same s s' ?_ ?_ h
  · simp [pipe, live, bufOf, bufOpt, h2, h3, h4, h5]
  · intro p; simp [bound, h1]

theorem bufOf_set_self (s : State) (cs : List Chan) (h : Nat) (ch ch' : Chan) (hc : cs[h]? = some ch) :
    (match (cs.set h ch')[h]? with | some c => c.buf | none => []) = ch'.buf := by
  rw [getElem?_set_self' _ _ _ _ hc]

theorem mem_toList_cur (p : Prod) (r : Row) (h : r ∈ p.cur.toList) : p.cur = some r := by
  cases hx : p.cur with
  | none => rw [hx] at h; simp at h
  | some r0 => rw [hx] at h; simp at h; rw [h]

theorem ord_pushTo (c : Cfg) (s : State) (i : Nat) (p : Prod) (h : Nat) (s' : State) (hinv : Inv c s)
    (hp : s.prods[i]? = some p) (hm : s.mig = none) (hcur : s.curCh = none ∨ s.curCh = some h)
    (hs : pushTo s i p h = some s') (ho : OrdInv s) : OrdInv s' := by
  unfold pushTo at hs
  split at hs
  · simp at hs
  · rename_i ch hch
    simp at hs; subst hs
    have hP := hinv.p i p hp
    obtain ⟨hb1, hb2, hb3⟩ := bound_set s
      { s with chans := s.chans.set h { ch with buf := ch.buf ++ p.cur.toList }, prods := s.prods.set i (idled p) }
      i (idled p) p rfl hp
    have hle := bnd_le_next i p hP.hcur
    rcases hcur with hc | hc
    · -- nil reference: the row goes to an unreachable channel
      refine ord_same s _ ?_ ?_ ho
      · simp [pipe, live, hm, hc, bufOpt]
      · intro q
        by_cases hq : q = i
        · subst hq; rw [hb2, hb3]; simpa [bnd, idled] using hle
        · rw [hb1 q hq]; exact Nat.le_refl _
    · refine ord_push s _ i p.cur.toList ?_ ?_ (fun q hq => by rw [hb1 q hq]; exact Nat.le_refl _) ?_ ?_ ho
      · simp only [pipe, live, hm, hc, bufOpt, bufOf]
        rw [getElem?_set_self' _ _ _ _ hch, hch]
        simp
      · intro r hr
        have hcr : p.cur = some r := mem_toList_cur p r hr
        obtain ⟨e1, e2⟩ := hP.hcur r hcr
        refine ⟨by rw [e1], ?_, by rw [hcr]; rfl⟩
        rw [hb3]; simp [bnd, hcr]
      · intro r hr
        have hcr : p.cur = some r := mem_toList_cur p r hr
        obtain ⟨e1, e2⟩ := hP.hcur r hcr
        rw [hb2]
        simp [bnd, idled, e1]; omega
      · intro _
        rw [hb2, hb3]; simpa [bnd, idled] using hle

theorem ord_recvFrom (c : Cfg) (s : State) (h : Nat) (s' : State) (hinv : Inv c s) (hcl : c.consLock = true)
    (hcons : s.cons = .cHold h) (hs : recvFrom s h = some s') (ho : OrdInv s) : OrdInv s' := by
  obtain ⟨hm, hc⟩ := hinv.core.hold hcl h hcons
  unfold recvFrom at hs
  split at hs
  · simp at hs
  · rename_i ch hch
    split at hs
    · simp at hs
    · rename_i r0 rest hb
      simp at hs; subst hs
      refine ord_same s _ ?_ (fun q => Nat.le_refl _) ho
      simp only [pipe, live, hm, hc, bufOpt, bufOf]
      rw [getElem?_set_self' _ _ _ _ hch, hch]
      simp [hb]

theorem ord_migOne (s : State) (i : Nat) (o' n : Nat) (s' : State) (hm : s.mig = some (i, some o', n))
    (hs : migOne s o' n = some s') (ho : OrdInv s) : OrdInv s' := by
  unfold migOne at hs
  split at hs
  · simp at hs
  · rename_i hon
    split at hs
    · rename_i co cn hco hcn
      split at hs
      · simp at hs
      · rename_i r0 rest hb
        split at hs
        · simp at hs; subst hs
          refine ord_same s _ ?_ (fun q => Nat.le_refl _) ho
          have hcn' : (s.chans.set o' { co with buf := rest })[n]? = some cn := by
            rw [getElem?_set_ne' _ _ _ _ (Ne.symm hon)]; exact hcn
          simp only [pipe, live, hm, bufOpt, bufOf]
          rw [getElem?_set_self' _ _ _ _ hcn', getElem?_set_ne' _ _ _ _ hon,
            getElem?_set_self' _ _ _ _ hco, hcn, hco]
          simp [hb]
        · simp at hs
    · simp at hs

end Ingest

namespace Ingest

theorem bufOf_append_lt (s : State) (x : Chan) (h : Nat) (hlt : h < s.chans.length) :
    (match (s.chans ++ [x])[h]? with | some c => c.buf | none => []) = bufOf s h := by
  rw [List.getElem?_append_left hlt]; rfl

/-- cached channel of the drop/block strategies: the only channel, or the reference is nil -/
theorem cached_cur (c : Cfg) (s : State) (hinv : Inv c s) (hne : c.strat ≠ .expand) (h : Nat) (hh : h = 0) :
    s.mig = none ∧ (s.curCh = none ∨ s.curCh = some h) := by
  have hmn : s.mig = none := by
    cases hm : s.mig with
    | none => rfl
    | some x =>
      obtain ⟨j, o, n⟩ := x
      exact absurd (hinv.core.migShape j o n hm).2.2.2 hne
  refine ⟨hmn, ?_⟩
  cases hc : s.curCh with
  | none => exact Or.inl rfl
  | some h' =>
    have h1 := hinv.core.curLast hmn h' hc
    have h2 := hinv.core.single hne
    right; congr; omega

theorem ord_stepPc (c : Cfg) (s : State) (i : Nat) (p : Prod) (w : Wit) (s' : State)
    (hp : s.prods[i]? = some p) (hinv : Inv c s) (hidle : IdleOk s) (ho : OrdInv s)
    (hs : stepPc c s i p w p.pc = some s') : OrdInv s' := by
  have hP := hinv.p i p hp
  have hpcOk := hP.hpc
  -- plain step on a state that differs from `s` in fields the order does not read
  have PL : ∀ (s0 : State) (nx : Next), s0.prods = s.prods → s0.chans = s.chans → s0.processed = s.processed →
      s0.mig = s.mig → s0.curCh = s.curCh → OrdInv (nx.apply s0 i p) := by
    intro s0 nx h1 h2 h3 h4 h5
    exact ord_plain s0 i p nx (by rw [h1]; exact hp) hP.hcur (ord_congr s s0 h1 h2 h3 h4 h5 ho)
  cases hpc : p.pc with
  | idle =>
    rw [hpc] at hs; simp only [stepPc, doEmit] at hs
    simp at hs; subst hs
    have hcur : p.cur = none := hidle i p hp hpc
    refine ord_apply { s with input := s.input + 1 } i (emitted p) p (emitNext c s) hp ?_
      (ord_congr s _ rfl rfl rfl rfl rfl ho)
    have h1 : bnd p = p.next := by simp [bnd, hcur]
    rw [h1]
    cases emitNext c s with
    | goto pc => simp [Next.rec', bnd, emitted]
    | drop => simp [Next.rec', bnd, idled, emitted]
    | exit => simp [Next.rec', bnd, idled, emitted]
  | sendLock att =>
    rw [hpc] at hs; simp only [stepPc, doSendLock] at hs
    split at hs
    · split at hs <;> (simp at hs; subst hs; exact PL s _ rfl rfl rfl rfl rfl)
    · simp at hs
  | sendSend att =>
    rw [hpc] at hs hpcOk; simp only [stepPc, doSendSend] at hs
    split at hs
    · simp at hs; subst hs; exact PL s _ rfl rfl rfl rfl rfl
    · rename_i h hh
      split at hs
      · exact ord_pushTo c s i p h s' hinv hp hpcOk.1 (Or.inr hh) hs ho
      · simp at hs; subst hs; exact PL s _ rfl rfl rfl rfl rfl
  | expEnter =>
    rw [hpc] at hs; simp only [stepPc, doExpEnter] at hs
    split at hs <;> (simp at hs; subst hs; exact PL _ _ rfl rfl rfl rfl rfl)
  | expRead =>
    rw [hpc] at hs; simp only [stepPc, doExpRead] at hs
    split at hs
    · split at hs <;> (simp at hs; subst hs; exact PL _ _ rfl rfl rfl rfl rfl)
    · simp at hs
  | expWLock n =>
    rw [hpc] at hs hpcOk; simp only [stepPc, doExpWLock] at hs
    split at hs
    · rename_i hg
      obtain ⟨hm, _, _⟩ := wGuard_facts c s hg
      simp at hs; subst hs
      refine ord_plain _ i p _ hp hP.hcur ?_
      refine ord_same s _ ?_ (fun q => Nat.le_refl _) ho
      simp only [pipe, live, hm, bufOpt, bufOf]
      rw [List.getElem?_append_right (Nat.le_refl _)]
      simp
      cases hc : s.curCh with
      | none => rfl
      | some h =>
        have := hinv.core.curLast hm h hc
        simp only [bufOpt, bufOf]
        rw [List.getElem?_append_left (by omega)]
    · simp at hs
  | expMig =>
    rw [hpc] at hs hpcOk; simp only [stepPc, doExpMig] at hs
    split at hs
    · rename_i j o n hm
      split at hs
      · rename_i hji
        subst hji
        simp only [migStep] at hs
        split at hs
        · rename_i hempty
          simp at hs; subst hs
          refine ord_plain _ j p _ hp hP.hcur ?_
          refine ord_same s _ ?_ (fun q => Nat.le_refl _) ho
          simp only [pipe, live, hm, bufOpt, bufOf]
          cases o with
          | none => simp [bufOpt]
          | some o' =>
            simp only [bufOpt, bufOf]
            simp only [oldEmpty] at hempty
            cases hco : s.chans[o']? with
            | none => simp
            | some co => rw [hco] at hempty; simp at hempty; simp [hempty]
        · split at hs
          · rename_i o' _
            exact ord_migOne s j o' n s' hm hs ho
          · simp at hs
      · simp at hs
    · simp at hs
  | expDone =>
    rw [hpc] at hs; simp only [stepPc, doExpDone] at hs
    simp at hs; subst hs; exact PL _ _ rfl rfl rfl rfl rfl
  | expRetry k =>
    rw [hpc] at hs; simp only [stepPc] at hs
    cases w <;> simp only [doExpRetry] at hs
    all_goals first
      | (simp at hs; subst hs; exact PL s _ rfl rfl rfl rfl rfl)
      | (split at hs
         · simp at hs; subst hs; exact PL s _ rfl rfl rfl rfl rfl
         · simp at hs)
  | dropGet =>
    rw [hpc] at hs; simp only [stepPc, doDropGet] at hs
    split at hs
    · split at hs <;> (simp at hs; subst hs; exact PL s _ rfl rfl rfl rfl rfl)
    · simp at hs
  | dropRetry k h =>
    rw [hpc] at hs hpcOk; simp only [stepPc] at hs
    obtain ⟨hmn, hcurh⟩ := cached_cur c s hinv (by rw [hpcOk.1]; simp) h hpcOk.2
    cases w <;> simp only [doDropRetry] at hs
    all_goals first
      | (simp at hs; subst hs; exact PL s _ rfl rfl rfl rfl rfl)
      | (split at hs
         · exact ord_pushTo c s i p h s' hinv hp hmn hcurh hs ho
         · simp at hs)
      | (split at hs
         · simp at hs; subst hs; exact PL s _ rfl rfl rfl rfl rfl
         · simp at hs)
  | blockGet =>
    rw [hpc] at hs; simp only [stepPc, doBlockGet] at hs
    split at hs
    · split at hs <;> (simp at hs; subst hs; exact PL s _ rfl rfl rfl rfl rfl)
    · simp at hs
  | blockSend h =>
    rw [hpc] at hs hpcOk; simp only [stepPc] at hs
    obtain ⟨hmn, hcurh⟩ := cached_cur c s hinv (by rw [hpcOk.1]; simp) h hpcOk.2
    cases w <;> simp only [doBlockSend] at hs
    all_goals first
      | (simp at hs; done)
      | (split at hs
         · exact ord_pushTo c s i p h s' hinv hp hmn hcurh hs ho
         · simp at hs)
      | (split at hs
         · simp at hs; subst hs; exact PL s _ rfl rfl rfl rfl rfl
         · simp at hs)

theorem ord_step (c : Cfg) (hcl : c.consLock = true) (s s' : State) (t : Tid) (w : Wit) (hinv : Inv c s)
    (hidle : IdleOk s) (ho : OrdInv s) (hs : step c s t w = some s') : OrdInv s' := by
  cases t with
  | prod i =>
    simp only [step, stepProd] at hs
    split at hs
    · simp at hs
    · rename_i p hp
      exact ord_stepPc c s i p w s' hp hinv hidle ho hs
  | cons =>
    simp only [step, stepCons] at hs
    split at hs
    · simp only [doConsRead] at hs
      split at hs
      · split at hs <;> (simp at hs; subst hs; exact ord_congr s _ rfl rfl rfl rfl rfl ho)
      · simp at hs
    · rename_i h hch
      cases w <;> simp only [doConsHold] at hs
      all_goals first
        | (simp at hs; done)
        | exact ord_recvFrom c s h s' hinv hcl hch hs ho
        | (simp at hs; subst hs; exact ord_congr s _ rfl rfl rfl rfl rfl ho)
        | (split at hs
           · simp at hs; subst hs; exact ord_congr s _ rfl rfl rfl rfl rfl ho
           · simp at hs)
    · simp at hs
  | stop =>
    simp only [step, stepStop] at hs
    split at hs
    · split at hs <;> (simp at hs; subst hs; exact ord_congr s _ rfl rfl rfl rfl rfl ho)
    · simp at hs; subst hs; exact ord_congr s _ rfl rfl rfl rfl rfl ho
    · split at hs
      · rename_i hg
        obtain ⟨hm, _, _⟩ := wGuard_facts c s hg
        simp at hs; subst hs
        refine ord_prefix s _ (live s) ?_ (fun q => Nat.le_refl _) ho
        simp [pipe, live, hm, bufOpt]
      · simp at hs
    · simp at hs; subst hs; exact ord_congr s _ rfl rfl rfl rfl rfl ho
    · simp at hs
    · simp at hs

theorem ord_init (c : Cfg) (n : Nat) : OrdInv (init c n) := by
  intro p
  simp [pipe, live, init, bufOpt, bufOf, seqsOf]

/-- everything that holds in every reachable state -/
theorem all_reach (c : Cfg) (n : Nat) (s : State) (h : Reach c n s) :
    Inv c s ∧ CI s ∧ (c.consLock = true → OrdInv s) := by
  induction h with
  | init => exact ⟨inv_init c n, ci_init c n, fun _ => ord_init c n⟩
  | step t w _ hs ih =>
    obtain ⟨h1, h2, h3⟩ := ih
    exact ⟨inv_step c _ _ t w h1 hs, ci_step c _ _ t w h2 hs, fun hcl => ord_step c hcl _ _ t w h1 h2.2.1 (h3 hcl) hs⟩

/-- the processed rows are the head of the queue -/
theorem processed_sorted (s : State) (h : OrdInv s) (p : Nat) : List.Pairwise (· < ·) (seqsOf p s.processed) := by
  have := (h p).1
  rw [pipe, seqsOf_append] at this
  exact (List.pairwise_append.mp this).1

end Ingest
