/-
Helper lemmas for C01/C02: ordering / alignment invariant of the tumbling state machine and
the invariants over the emission history.  Core Lean only.
-/
import SsqlVerif.Proofs.Tumbling
set_option autoImplicit false
set_option linter.unusedVariables false
set_option linter.unusedSimpArgs false

namespace Tumbling
open Wm

/-- `x ≤ o` for an optional watermark (`none` = no watermark yet: nothing is below it) -/
def leOpt (x : Int) (o : Option Int) : Prop := ∃ y, o = some y ∧ x ≤ y

theorem leOpt_raise (x : Int) (cur : Option Int) (nw : Int) (h : leOpt x cur) : leOpt x (raise cur nw) := by
  obtain ⟨y, rfl, hxy⟩ := h
  unfold raise after
  simp only
  by_cases hlt : y < nw
  · rw [if_pos (by simpa using hlt)]; exact ⟨nw, rfl, by omega⟩
  · rw [if_neg (by simpa using hlt)]; exact ⟨y, rfl, hxy⟩

theorem leOpt_raise_self (cur : Option Int) (nw : Int) : leOpt nw (raise cur nw) := by
  unfold raise after
  cases cur with
  | none => exact ⟨nw, by simp, Int.le_refl _⟩
  | some y =>
    simp only
    by_cases hlt : y < nw
    · rw [if_pos (by simpa using hlt)]; exact ⟨nw, rfl, Int.le_refl _⟩
    · rw [if_neg (by simpa using hlt)]; exact ⟨y, rfl, by omega⟩

theorem send_cur (w : Wm.Wm) : (send w).cur = w.cur := by
  unfold send; split
  · rfl
  · split
    · split <;> rfl
    · rfl

theorem send_maxOOO (w : Wm.Wm) : (send w).maxOOO = w.maxOOO := by
  unfold send; split
  · rfl
  · split
    · split <;> rfl
    · rfl

theorem send_chan (w : Wm.Wm) (x : Int) (hx : x ∈ (send w).chan) : x ∈ w.chan ∨ w.cur = some x := by
  unfold send at hx
  split at hx
  · exact Or.inl hx
  · rename_i c hc
    split at hx
    · split at hx
      · simp only [List.mem_append, List.mem_singleton] at hx
        rcases hx with h | h
        · exact Or.inl h
        · exact Or.inr (by rw [hc, h])
      · exact Or.inl hx
    · exact Or.inl hx

theorem bumpMax_cur (w : Wm.Wm) (ts x : Int) (h : leOpt x w.cur) : leOpt x (bumpMax w ts).cur := by
  unfold bumpMax; split
  · exact leOpt_raise _ _ _ h
  · exact h

theorem bumpMax_chan (w : Wm.Wm) (ts : Int) : (bumpMax w ts).chan = w.chan := by
  unfold bumpMax; split <;> rfl

theorem updateEventTime_cur (w : Wm.Wm) (ts now x : Int) (h : leOpt x w.cur) :
    leOpt x (updateEventTime w ts now).cur := by
  unfold updateEventTime; split
  · exact h
  · rw [send_cur]; exact bumpMax_cur _ _ _ h

theorem leOpt_self (o : Option Int) (x : Int) (h : o = some x) : leOpt x o := ⟨x, h, Int.le_refl _⟩

theorem updateEventTime_chan (w : Wm.Wm) (ts now x : Int) (hc : ∀ y ∈ w.chan, leOpt y w.cur)
    (hx : x ∈ (updateEventTime w ts now).chan) : leOpt x (updateEventTime w ts now).cur := by
  unfold updateEventTime at hx ⊢; split
  · rename_i h; rw [if_pos h] at hx; exact hc x hx
  · rename_i h; rw [if_neg h] at hx
    rw [send_cur]
    rcases send_chan _ x hx with h1 | h1
    · rw [bumpMax_chan] at h1; exact bumpMax_cur _ _ _ (hc x h1)
    · exact leOpt_self _ _ h1

theorem tick_cur (w : Wm.Wm) (idle : Bool) (now x : Int) (h : leOpt x w.cur) :
    leOpt x (tick w idle now).cur := by
  unfold tick; split
  · exact h
  · rw [send_cur]; exact leOpt_raise _ _ _ h

theorem tick_chan (w : Wm.Wm) (idle : Bool) (now x : Int) (hc : ∀ y ∈ w.chan, leOpt y w.cur)
    (hx : x ∈ (tick w idle now).chan) : leOpt x (tick w idle now).cur := by
  unfold tick at hx ⊢; split
  · rename_i h; simp only [h] at hx; exact hc x hx
  · rename_i m h; simp only [h] at hx
    rw [send_cur]
    rcases send_chan _ x hx with h1 | h1
    · exact leOpt_raise _ _ _ (hc x h1)
    · exact leOpt_self _ _ h1

/-- a row that is not late lies at or above everything below the watermark -/
theorem not_late_ge (w : Wm.Wm) (ts x : Int) (hl : isLate w ts = false) (hx : leOpt x w.cur) : x ≤ ts := by
  obtain ⟨y, hy, hxy⟩ := hx
  unfold isLate at hl
  rw [hy] at hl
  simp only [decide_eq_false_iff_not] at hl
  omega

/-! ### state invariant -/

structure Good (s : TW) : Prop where
  hsize : 0 < s.size
  hinit : s.cur = none → s.data = [] ∧ s.doneW = none
  hdata : ∀ c, s.cur = some c → ∀ r ∈ s.data, c ≤ r.ts
  halign : ∀ c, s.cur = some c → s.size ∣ c
  htrig : ∀ w, s.trigW = some w → leOpt w s.wm.cur
  hdone : ∀ w, s.doneW = some w → leOpt w s.wm.cur
  hchan : ∀ w ∈ s.wm.chan, leOpt w s.wm.cur
  hdoneCur : ∀ w c, s.doneW = some w → s.cur = some c → w < c + s.size

theorem good_init (size ooo lateness : Int) (hs : 0 < size) : Good (init size ooo lateness) :=
  { hsize := hs
    hinit := fun _ => ⟨rfl, rfl⟩
    hdata := by intro c h; cases h
    halign := by intro c h; cases h
    htrig := by intro w h; cases h
    hdone := by intro w h; cases h
    hchan := by intro w h; cases h
    hdoneCur := by intro w c h; cases h }

theorem curInit_le (s : TW) (r : Row) (hg : Good s) (ht : 0 ≤ r.ts) (hc : s.cur = none) :
    curInit s r ≤ r.ts := by
  simp only [curInit, hc]; exact alignDown_le _ _ ht hg.hsize

theorem curInit_dvd (s : TW) (r : Row) (hg : Good s) : s.size ∣ curInit s r := by
  unfold curInit
  cases hc : s.cur with
  | none => exact alignDown_dvd _ _
  | some c => exact hg.halign c hc

theorem curAfterAdd_dvd (s : TW) (r : Row) (now : Int) (hg : Good s) : s.size ∣ curAfterAdd s r now := by
  unfold curAfterAdd
  split
  · exact curInit_dvd s r hg
  · split
    · exact alignDown_dvd _ _
    · exact curInit_dvd s r hg

theorem curAfterAdd_le_curInit (s : TW) (r : Row) (now : Int) (hg : Good s) (ht : 0 ≤ r.ts) :
    curAfterAdd s r now ≤ curInit s r := by
  unfold curAfterAdd
  split
  · exact Int.le_refl _
  · split
    · rename_i h; have := alignDown_le r.ts s.size ht hg.hsize; omega
    · exact Int.le_refl _

/-- membership in the buffer after an Add -/
theorem addData_mem (s : TW) (r : Row) (now : Int) (x : Row) (hx : x ∈ addData s r now) :
    x ∈ s.data ∨ (x = r ∧ fate s r now = .keep) ∨ (x = r ∧ ∃ f, fate s r now = .lateUpdate f ∧ inSlot s.size f.start r = false) := by
  unfold addData at hx
  split at hx
  · rename_i hf
    simp only [List.mem_append, List.mem_singleton] at hx
    rcases hx with h | h
    · exact Or.inl h
    · exact Or.inr (Or.inl ⟨h, hf⟩)
  · rename_i f hf
    simp only [lateData, List.mem_filter, List.mem_append, List.mem_singleton, Bool.not_eq_true'] at hx
    rcases hx with ⟨h | h, hns⟩
    · exact Or.inl h
    · exact Or.inr (Or.inr ⟨h, f, hf, by rw [← h]; exact hns⟩)
  · exact Or.inl hx

theorem findFired_inSlot (s : TW) (r : Row) (now : Int) (f : Fired) (h : findFired s r now = some f) :
    inSlot s.size f.start r = true := by
  unfold findFired at h
  have := List.find?_some h
  simp only [Bool.and_eq_true] at this
  exact this.1

theorem fate_lateUpdate_inSlot (s : TW) (r : Row) (now : Int) (f : Fired) (h : fate s r now = .lateUpdate f) :
    inSlot s.size f.start r = true := by
  unfold fate at h
  split at h
  · split at h
    · cases h
    · split at h
      · split at h
        · rename_i g hg; cases h; exact findFired_inSlot s r now _ hg
        · cases h
      · cases h
  · cases h

/-- the accepted row is at or above the (possibly re-seated) current slot -/
theorem keep_ge_cur (s : TW) (r : Row) (now : Int) (hg : Good s) (ht : 0 ≤ r.ts)
    (hk : fate s r now = .keep) : curAfterAdd s r now ≤ r.ts := by
  unfold fate at hk
  unfold curAfterAdd
  by_cases hl : lateNow s r now = true
  · rw [if_pos hl] at hk ⊢
    by_cases hin : inSlot s.size (curInit s r) r = true
    · simp only [inSlot, Bool.and_eq_true, decide_eq_true_eq] at hin; exact hin.1
    · rw [if_neg hin] at hk
      split at hk
      · split at hk <;> cases hk
      · cases hk
  · rw [if_neg hl]
    split
    · exact alignDown_le _ _ ht hg.hsize
    · rename_i h; omega

theorem good_add (s : TW) (r : Row) (now : Int) (hg : Good s) (ht : 0 ≤ r.ts) : Good (stepAdd s r now).1 := by
  have hmono : ∀ x, leOpt x s.wm.cur → leOpt x (wmAfter s r now).cur :=
    fun x hx => updateEventTime_cur _ _ _ _ hx
  refine
    { hsize := hg.hsize
      hinit := by intro h; simp [stepAdd] at h
      hdata := ?_
      halign := by intro c hc; simp only [stepAdd, Option.some.injEq] at hc; rw [← hc]; exact curAfterAdd_dvd s r now hg
      htrig := fun w hw => hmono w (hg.htrig w hw)
      hdone := fun w hw => hmono w (hg.hdone w hw)
      hchan := fun w hw => updateEventTime_chan _ _ _ _ hg.hchan hw
      hdoneCur := ?_ }
  · intro c hc x hx
    simp only [stepAdd, Option.some.injEq] at hc hx
    rw [← hc]
    rcases addData_mem s r now x hx with h | ⟨rfl, hk⟩ | ⟨rfl, f, hf, hns⟩
    · -- an old row: it was at or above the old slot, and the slot only moves down here
      cases hcur : s.cur with
      | none => rw [(hg.hinit hcur).1] at h; cases h
      | some c0 =>
        have h1 := hg.hdata c0 hcur x h
        have h2 := curAfterAdd_le_curInit s r now hg ht
        simp only [curInit, hcur] at h2
        omega
    · exact keep_ge_cur s x now hg ht hk
    · rw [fate_lateUpdate_inSlot s x now f hf] at hns; cases hns
  · intro w c hw hc
    show w < c + s.size
    simp only [stepAdd, Option.some.injEq] at hw hc
    rw [← hc]
    cases hcur : s.cur with
    | none => rw [(hg.hinit hcur).2] at hw; cases hw
    | some c0 =>
      have h0 := hg.hdoneCur w c0 hw hcur
      unfold curAfterAdd
      have hci : curInit s r = c0 := by simp [curInit, hcur]
      split
      · rw [hci]; exact h0
      · rename_i hl
        split
        · -- re-seated: the completed pass is at or below the watermark, the row is not late
          have hw' := hmono w (hg.hdone w hw)
          have hle := not_late_ge (wmAfter s r now) r.ts w (by simpa [lateNow] using hl) hw'
          have := lt_alignDown_add r.ts s.size ht hg.hsize
          omega
        · rw [hci]; exact h0

theorem good_fireOrSkip (s : TW) (c w : Int) (hg : Good s) (hcur : s.cur = some c)
    (htr : s.trigW = some w) (hw : c + s.size ≤ w) : Good (fireOrSkip s c).1 := by
  have hsz := hg.hsize
  have hdone' : ∀ w' c', s.doneW = some w' → c' = c + s.size → w' < c' + s.size := by
    intro w' c' h1 h2; have := hg.hdoneCur w' c h1 hcur; omega
  unfold fireOrSkip
  split
  · rename_i hempty
    refine
      { hsize := hsz, hinit := by intro h; cases h
        hdata := ?_
        halign := by intro c' hc'; cases hc'; exact Int.dvd_add (hg.halign c hcur) (Int.dvd_refl _)
        htrig := hg.htrig, hdone := hg.hdone, hchan := hg.hchan
        hdoneCur := by intro w' c' h1 h2; cases h2; exact hdone' w' _ h1 rfl }
    intro c' hc' x hx
    cases hc'
    have hnot : inSlot s.size c x = false := by
      have : x ∉ slotRows s c := by
        rw [List.isEmpty_iff] at hempty; rw [hempty]; simp
      simp only [slotRows, List.mem_filter] at this
      cases h : inSlot s.size c x
      · rfl
      · exact absurd ⟨hx, h⟩ this
    exact inSlot_false_ge _ _ _ (hg.hdata c hcur x hx) hnot
  · refine
      { hsize := hsz, hinit := by intro h; cases h
        hdata := ?_
        halign := by intro c' hc'; cases hc'; exact Int.dvd_add (hg.halign c hcur) (Int.dvd_refl _)
        htrig := hg.htrig, hdone := hg.hdone, hchan := hg.hchan
        hdoneCur := by intro w' c' h1 h2; cases h2; exact hdone' w' _ h1 rfl }
    intro c' hc' x hx
    cases hc'
    simp only [restRows, List.mem_filter, Bool.not_eq_true'] at hx
    exact inSlot_false_ge _ _ _ (hg.hdata c hcur x hx.1) hx.2

theorem good_closeExpired (s : TW) (c w : Int) (hg : Good s) (hcur : s.cur = some c)
    (htr : s.trigW = some w) (hw : ¬ c + s.size ≤ w) : Good (closeExpired s w) :=
  { hsize := hg.hsize
    hinit := by intro h; simp only [closeExpired] at h; rw [hcur] at h; cases h
    hdata := by
      intro c' hc' x hx
      simp only [closeExpired, List.mem_filter] at hc' hx
      exact hg.hdata c' hc' x hx.1
    halign := hg.halign
    htrig := by intro w' h; simp [closeExpired] at h
    hdone := by
      intro w' h; simp only [closeExpired, Option.some.injEq] at h; rw [← h]; exact hg.htrig w htr
    hchan := hg.hchan
    hdoneCur := by
      intro w' c' h1 h2
      show w' < c' + s.size
      simp only [closeExpired, Option.some.injEq] at h1 h2
      rw [hcur] at h2; cases h2; omega }

theorem good_iter (s : TW) (hg : Good s) : Good (stepIter s).1 := by
  unfold stepIter
  split
  · rename_i w c htr hcur
    split
    · rename_i hw; exact good_fireOrSkip s c w hg hcur htr hw
    · rename_i hw; exact good_closeExpired s c w hg hcur htr hw
  · exact
      { hsize := hg.hsize, hinit := hg.hinit, hdata := hg.hdata, halign := hg.halign
        htrig := by intro w h; cases h
        hdone := hg.hdone, hchan := hg.hchan, hdoneCur := hg.hdoneCur }
  · exact hg

theorem pop_mem (w : Wm.Wm) (x : Int) (w' : Wm.Wm) (h : Wm.pop w = some (x, w')) :
    x ∈ w.chan ∧ w'.cur = w.cur ∧ ∀ y ∈ w'.chan, y ∈ w.chan := by
  unfold Wm.pop at h
  split at h
  · cases h
  · rename_i a rest hc
    simp only [Option.some.injEq, Prod.mk.injEq] at h
    obtain ⟨rfl, rfl⟩ := h
    exact ⟨by rw [hc]; simp, rfl, fun y hy => by rw [hc]; simp [hy]⟩

theorem good_pop (s : TW) (hg : Good s) : Good (stepPop s) := by
  unfold stepPop
  split
  · rename_i w wm' htr hp
    obtain ⟨hmem, hcur, hsub⟩ := pop_mem _ _ _ hp
    exact
      { hsize := hg.hsize, hinit := hg.hinit, hdata := hg.hdata, halign := hg.halign
        htrig := by
          intro w' h; simp only [Option.some.injEq] at h; rw [← h, hcur]; exact hg.hchan w hmem
        hdone := by intro w' h; rw [hcur]; exact hg.hdone w' h
        hchan := by intro y hy; rw [hcur]; exact hg.hchan y (hsub y hy)
        hdoneCur := hg.hdoneCur }
  · exact hg

/-- timestamps of all adds are post-epoch (truncating alignment is floor only there) -/
def OpOk : Op → Prop
  | .add r _ => 0 ≤ r.ts
  | _ => True

instance (op : Op) : Decidable (OpOk op) := by
  cases op <;> simp only [OpOk] <;> infer_instance

theorem good_step (s : TW) (op : Op) (hg : Good s) (hok : OpOk op) : Good (step s op).1 := by
  cases op with
  | add r now => exact good_add s r now hg hok
  | addNoTs => exact hg
  | tick idle now =>
    exact
      { hsize := hg.hsize, hinit := hg.hinit, hdata := hg.hdata, halign := hg.halign
        htrig := fun w h => tick_cur _ _ _ _ (hg.htrig w h)
        hdone := fun w h => tick_cur _ _ _ _ (hg.hdone w h)
        hchan := fun w h => tick_chan _ _ _ _ hg.hchan h
        hdoneCur := hg.hdoneCur }
  | pop => exact good_pop s hg
  | iter => exact good_iter s hg

theorem good_run (s : TW) (ops : List Op) (hg : Good s) (hok : ∀ op ∈ ops, OpOk op) : Good (run s ops).1 := by
  induction ops generalizing s with
  | nil => exact hg
  | cons op ops ih =>
    simp only [run]
    exact ih _ (good_step s op hg (hok op (by simp))) (fun o ho => hok o (by simp [ho]))

end Tumbling
