/-
Helper lemmas for C14: the LRU field engine.  While the live partitions fit the cap nothing
is evicted and the engine is a total map from keys to machine states; every row then gets
the machine's value over the earlier live rows of its own partition (`Spec.fieldSpec`).
Core Lean only.
-/
import SsqlVerif.Proofs.AnalyticMachines
set_option autoImplicit false
set_option linter.unusedSectionVars false
set_option linter.unusedSimpArgs false
set_option linter.unusedVariables false

namespace Analytic
open Spec

section assoc
variable {K γ : Type} [DecidableEq K]

theorem eraseK_cons_eq (k : K) (p : K × γ) (l : List (K × γ)) (h : p.1 = k) :
    eraseK k (p :: l) = eraseK k l := by simp [eraseK, h]

theorem eraseK_cons_ne (k : K) (p : K × γ) (l : List (K × γ)) (h : p.1 ≠ k) :
    eraseK k (p :: l) = p :: eraseK k l := by simp [eraseK, h]

theorem lookupK_cons_eq (k : K) (p : K × γ) (l : List (K × γ)) (h : p.1 = k) :
    lookupK k (p :: l) = some p.2 := by simp [lookupK, h]

theorem lookupK_cons_ne (k : K) (p : K × γ) (l : List (K × γ)) (h : p.1 ≠ k) :
    lookupK k (p :: l) = lookupK k l := by simp [lookupK, h]

theorem lookupK_eraseK_ne (k k' : K) (l : List (K × γ)) (h : k' ≠ k) :
    lookupK k' (eraseK k l) = lookupK k' l := by
  induction l with
  | nil => rfl
  | cons p l ih =>
    by_cases hp : p.1 = k
    · have hpk' : p.1 ≠ k' := fun e => h (e ▸ hp)
      rw [eraseK_cons_eq k p l hp, lookupK_cons_ne k' p l hpk', ih]
    · rw [eraseK_cons_ne k p l hp]
      by_cases hpk' : p.1 = k'
      · rw [lookupK_cons_eq k' p _ hpk', lookupK_cons_eq k' p _ hpk']
      · rw [lookupK_cons_ne k' p _ hpk', lookupK_cons_ne k' p _ hpk', ih]

theorem lookupK_eraseK_self (k : K) (l : List (K × γ)) : lookupK k (eraseK k l) = none := by
  induction l with
  | nil => rfl
  | cons p l ih =>
    by_cases hp : p.1 = k
    · rw [eraseK_cons_eq k p l hp, ih]
    · rw [eraseK_cons_ne k p l hp, lookupK_cons_ne k p _ hp, ih]

theorem lookupK_none_iff (k : K) (l : List (K × γ)) : lookupK k l = none ↔ k ∉ l.map (·.1) := by
  induction l with
  | nil => simp [lookupK]
  | cons p l ih =>
    by_cases hp : p.1 = k
    · simp [lookupK, hp]
    · have : ¬ k = p.1 := fun e => hp e.symm
      simp [lookupK, hp, ih, this]

theorem keys_eraseK (k : K) (l : List (K × γ)) :
    (eraseK k l).map (·.1) = (l.map (·.1)).filter (fun x => decide (x ≠ k)) := by
  induction l with
  | nil => rfl
  | cons p l ih =>
    by_cases hp : p.1 = k
    · rw [eraseK_cons_eq k p l hp, ih]; simp [hp]
    · rw [eraseK_cons_ne k p l hp]; simp [hp, ih]

theorem eraseK_of_not_mem (k : K) (l : List (K × γ)) (h : k ∉ l.map (·.1)) : eraseK k l = l := by
  unfold eraseK
  apply List.filter_eq_self.2
  intro p hp
  have : p.1 ≠ k := fun e => h (by simp; exact ⟨p.2, by rw [← e]; exact hp⟩)
  simpa using this

end assoc

section engine
variable {K σ α β : Type} [DecidableEq K]

def keysOf (e : Eng K σ β) : List K := e.lru.map (·.1)
/-- the state partition `k` owns (the initial one if it has none) -/
def absSt (init : σ) (e : Eng K σ β) (k : K) : σ := (lookupK k e.lru).getD init
/-- the cached last result of partition `k` -/
def absLast (e : Eng K σ β) (k : K) : Option β := lookupK k e.last

/-- what a live row does when nothing is evicted -/
def idealLive (m : Machine σ α β) (e : Eng K σ β) (k : K) (a : α) : Eng K σ β :=
  { lru := (k, (m.step (absSt m.init e k) a).1) :: eraseK k e.lru,
    last := (k, (m.step (absSt m.init e k) a).2) :: eraseK k e.last }

theorem touch_noevict (cap : Nat) (init : σ) (e : Eng K σ β) (k : K)
    (h : k ∈ keysOf e ∨ e.lru.length < cap) :
    touch cap init e k = { lru := (k, absSt init e k) :: eraseK k e.lru, last := e.last } := by
  unfold touch absSt
  cases hl : lookupK k e.lru with
  | some s => rfl
  | none =>
    have hnm : k ∉ e.lru.map (·.1) := (lookupK_none_iff k e.lru).1 hl
    have hlt : e.lru.length < cap := by
      rcases h with h | h
      · exact absurd h hnm
      · exact h
    simp only [Option.getD_none]
    unfold evictIfOver
    rw [if_neg (by simp; omega), eraseK_of_not_mem k e.lru hnm]

theorem evalLive_noevict (cap : Nat) (m : Machine σ α β) (e : Eng K σ β) (k : K) (a : α)
    (h : k ∈ keysOf e ∨ e.lru.length < cap) :
    evalLive cap m e k a = (idealLive m e k a, (m.step (absSt m.init e k) a).2) := by
  unfold evalLive
  rw [touch_noevict cap m.init e k h]
  rfl

theorem idealLive_absSt_self (m : Machine σ α β) (e : Eng K σ β) (k : K) (a : α) :
    absSt m.init (idealLive m e k a) k = (m.step (absSt m.init e k) a).1 := by
  simp [absSt, idealLive, lookupK]

theorem idealLive_absSt_ne (m : Machine σ α β) (e : Eng K σ β) (k k' : K) (a : α) (h : k' ≠ k) :
    absSt m.init (idealLive m e k a) k' = absSt m.init e k' := by
  have : ¬ k = k' := fun e => h e.symm
  simp [absSt, idealLive, lookupK, this, lookupK_eraseK_ne k k' _ h]

theorem idealLive_absLast_self (m : Machine σ α β) (e : Eng K σ β) (k : K) (a : α) :
    absLast (idealLive m e k a) k = some (m.step (absSt m.init e k) a).2 := by
  simp [absLast, idealLive, lookupK]

theorem idealLive_absLast_ne (m : Machine σ α β) (e : Eng K σ β) (k k' : K) (a : α) (h : k' ≠ k) :
    absLast (idealLive m e k a) k' = absLast e k' := by
  have : ¬ k = k' := fun e => h e.symm
  simp [absLast, idealLive, lookupK, this, lookupK_eraseK_ne k k' _ h]

theorem idealLive_keys (m : Machine σ α β) (e : Eng K σ β) (k : K) (a : α) :
    keysOf (idealLive m e k a) = k :: (keysOf e).filter (fun x => decide (x ≠ k)) := by
  simp [keysOf, idealLive, keys_eraseK]

end engine

section main
variable {K σ α β : Type} [DecidableEq K]

theorem partRows_snoc (k : K) (hist : List (FRow K α)) (r : FRow K α) :
    partRows k (hist ++ [r]) = if r.key = k then partRows k hist ++ [r] else partRows k hist := by
  unfold partRows
  by_cases h : r.key = k <;> simp [List.filter_append, h]

theorem liveArgs_snoc (rows : List (FRow K α)) (r : FRow K α) :
    liveArgs (rows ++ [r]) = if r.live then liveArgs rows ++ [r.arg] else liveArgs rows := by
  unfold liveArgs
  by_cases h : r.live = true <;> simp [List.filter_append, h]

/-- the value a row whose WHEN fails repeats -/
def lastOut (m : Machine σ α β) (rows : List (FRow K α)) : Option β :=
  match (liveArgs rows).reverse with
  | [] => none
  | a :: before => some (m.out before.reverse a)

theorem gated_out (m : Machine σ α β) (earlier : List (FRow K α)) (cur : FRow K α) :
    gated m.out earlier cur =
      if cur.live then some (m.out (liveArgs earlier) cur.arg) else lastOut m earlier := rfl

theorem lastOut_snoc_live (m : Machine σ α β) (rows : List (FRow K α)) (r : FRow K α) (h : r.live = true) :
    lastOut m (rows ++ [r]) = some (m.out (liveArgs rows) r.arg) := by
  unfold lastOut
  rw [liveArgs_snoc, if_pos h]
  simp

/-- the engine holds, for every partition, the machine state over the partition's live rows and
its last value; no key outside `S` owns state -/
structure Inv (m : Machine σ α β) (S : List K) (e : Eng K σ β) (hist : List (FRow K α)) : Prop where
  nodup : (keysOf e).Nodup
  sub : ∀ k, k ∈ keysOf e → k ∈ S
  st : ∀ k, absSt m.init e k = m.run m.init (liveArgs (partRows k hist))
  last : ∀ k, absLast e k = lastOut m (partRows k hist)

theorem inv_empty (m : Machine σ α β) (S : List K) : Inv m S (Eng.empty : Eng K σ β) [] :=
  ⟨by simp [keysOf, Eng.empty], by simp [keysOf, Eng.empty], fun k => rfl, fun k => rfl⟩

theorem noevict_of_inv (cap : Nat) (m : Machine σ α β) (S : List K) (hS : S.length ≤ cap)
    (e : Eng K σ β) (hist : List (FRow K α)) (hinv : Inv m S e hist) (k : K) (hk : k ∈ S) :
    k ∈ keysOf e ∨ e.lru.length < cap := by
  by_cases hmem : k ∈ keysOf e
  · exact Or.inl hmem
  · right
    have hnd : (k :: keysOf e).Nodup := List.nodup_cons.2 ⟨hmem, hinv.nodup⟩
    have hsub : (k :: keysOf e) ⊆ S := by
      intro x hx
      rcases List.mem_cons.1 hx with hx | hx
      · exact hx ▸ hk
      · exact hinv.sub x hx
    have := List.Nodup.length_le_of_subset hnd hsub
    have hl : (keysOf e).length = e.lru.length := by simp [keysOf]
    simp at this
    omega

theorem inv_step (cap : Nat) (m : Machine σ α β) (S : List K) (hS : S.length ≤ cap)
    (e : Eng K σ β) (hist : List (FRow K α)) (r : FRow K α)
    (hinv : Inv m S e hist) (hr : r.live = true → r.key ∈ S) :
    (evalField cap m e r.key r.live r.arg).2 = gated m.out (partRows r.key hist) r ∧
    Inv m S (evalField cap m e r.key r.live r.arg).1 (hist ++ [r]) := by
  by_cases hl : r.live = true
  · -- WHEN holds: state fetched (no eviction), applied, cached
    have hne := noevict_of_inv cap m S hS e hist hinv r.key (hr hl)
    have hev : evalField cap m e r.key r.live r.arg =
        (idealLive m e r.key r.arg, some (m.step (absSt m.init e r.key) r.arg).2) := by
      unfold evalField
      rw [if_pos hl, evalLive_noevict cap m e r.key r.arg hne]
    rw [hev]
    refine ⟨?_, ?_, ?_, ?_, ?_⟩
    · rw [gated_out, if_pos hl, hinv.st r.key]; rfl
    · rw [idealLive_keys]
      refine List.nodup_cons.2 ⟨by simp, ?_⟩
      exact List.Nodup.sublist (List.filter_sublist) hinv.nodup
    · intro k hk
      rw [idealLive_keys] at hk
      rcases List.mem_cons.1 hk with hk | hk
      · exact hk ▸ hr hl
      · exact hinv.sub k (List.mem_filter.1 hk).1
    · intro k
      by_cases hk : k = r.key
      · subst hk
        rw [idealLive_absSt_self, hinv.st, partRows_snoc, if_pos rfl, liveArgs_snoc, if_pos hl, Machine.run_snoc]
      · have hk' : ¬ r.key = k := fun e => hk e.symm
        rw [idealLive_absSt_ne m e r.key k r.arg hk, hinv.st, partRows_snoc, if_neg hk']
    · intro k
      by_cases hk : k = r.key
      · subst hk
        rw [idealLive_absLast_self, hinv.st, partRows_snoc, if_pos rfl, lastOut_snoc_live m _ r hl]; rfl
      · have hk' : ¬ r.key = k := fun e => hk e.symm
        rw [idealLive_absLast_ne m e r.key k r.arg hk, hinv.last, partRows_snoc, if_neg hk']
  · -- WHEN fails: nothing changes, the cached value is repeated
    have hl' : r.live = false := by simpa using hl
    have hev : evalField cap m e r.key r.live r.arg = (e, absLast e r.key) := by
      unfold evalField absLast
      rw [hl']; rfl
    rw [hev]
    refine ⟨?_, hinv.nodup, hinv.sub, ?_, ?_⟩
    · rw [gated_out, hl', hinv.last]; rfl
    · intro k
      rw [hinv.st, partRows_snoc]
      by_cases hk : r.key = k
      · rw [if_pos hk, liveArgs_snoc, hl']; rfl
      · rw [if_neg hk]
    · intro k
      rw [hinv.last, partRows_snoc]
      by_cases hk : r.key = k
      · rw [if_pos hk]; unfold lastOut; rw [liveArgs_snoc, hl']; rfl
      · rw [if_neg hk]

theorem engRun_eq_specFrom (cap : Nat) (m : Machine σ α β) (S : List K) (hS : S.length ≤ cap) :
    ∀ (rows : List (FRow K α)) (e : Eng K σ β) (hist : List (FRow K α)),
      Inv m S e hist → (∀ r ∈ rows, r.live = true → r.key ∈ S) →
      engRun cap m e rows = fieldSpecFrom m.out hist rows ∧
      Inv m S (engState cap m e rows) (hist ++ rows) := by
  intro rows
  induction rows with
  | nil => intro e hist hinv _; exact ⟨rfl, by simpa [engState] using hinv⟩
  | cons r rs ih =>
    intro e hist hinv hk
    obtain ⟨hout, hinv'⟩ := inv_step cap m S hS e hist r hinv (hk r (by simp))
    obtain ⟨hrest, hfin⟩ := ih _ (hist ++ [r]) hinv' (fun x hx => hk x (by simp [hx]))
    refine ⟨?_, ?_⟩
    · show _ :: engRun cap m _ rs = _ :: fieldSpecFrom m.out (hist ++ [r]) rs
      rw [hout, hrest]
    · show Inv m S (engState cap m _ rs) _
      simpa [List.append_assoc] using hfin

theorem mem_distinct (k : K) (l : List K) : k ∈ distinct l ↔ k ∈ l := by
  induction l with
  | nil => simp [distinct]
  | cons x xs ih =>
    unfold distinct
    by_cases hx : x ∈ xs
    · rw [if_pos hx, ih]
      constructor
      · intro h; exact List.mem_cons_of_mem _ h
      · intro h
        rcases List.mem_cons.1 h with h | h
        · exact h ▸ hx
        · exact h
    · rw [if_neg hx]; simp [ih]

theorem live_key_mem (rows : List (FRow K α)) (r : FRow K α) (hr : r ∈ rows) (hl : r.live = true) :
    r.key ∈ distinct (liveKeys rows) := by
  rw [mem_distinct]
  unfold liveKeys
  exact List.mem_map.2 ⟨r, List.mem_filter.2 ⟨hr, hl⟩, rfl⟩

/-- **the engine computes the specification** while the live partitions fit the cap -/
theorem engRun_eq_fieldSpec (cap : Nat) (m : Machine σ α β) (rows : List (FRow K α))
    (hcap : withinCap cap rows = true) :
    engRun cap m (Eng.empty : Eng K σ β) rows = fieldSpec m.out rows := by
  have hS : (distinct (liveKeys rows)).length ≤ cap := by simpa [withinCap] using hcap
  exact (engRun_eq_specFrom cap m (distinct (liveKeys rows)) hS rows Eng.empty []
    (inv_empty m _) (fun r hr hl => live_key_mem rows r hr hl)).1

/-- the final engine state is the total map key ↦ machine state over the key's live rows -/
theorem engState_total (cap : Nat) (m : Machine σ α β) (rows : List (FRow K α))
    (hcap : withinCap cap rows = true) (k : K) :
    absSt m.init (engState cap m (Eng.empty : Eng K σ β) rows) k = m.run m.init (liveArgs (partRows k rows)) ∧
    absLast (engState cap m (Eng.empty : Eng K σ β) rows) k = lastOut m (partRows k rows) := by
  have hS : (distinct (liveKeys rows)).length ≤ cap := by simpa [withinCap] using hcap
  have := (engRun_eq_specFrom cap m (distinct (liveKeys rows)) hS rows Eng.empty []
    (inv_empty m _) (fun r hr hl => live_key_mem rows r hr hl)).2
  simp only [List.nil_append] at this
  exact ⟨this.st k, this.last k⟩

end main

section isolation
variable {K σ α β : Type} [DecidableEq K]

/-- the outputs that belong to the rows of partition `k` -/
def restrict (k : K) (rows : List (FRow K α)) (outs : List (Option β)) : List (Option β) :=
  ((rows.zip outs).filter (fun p => decide (p.1.key = k))).map (·.2)

theorem partRows_idem (k : K) (rows : List (FRow K α)) : partRows k (partRows k rows) = partRows k rows := by
  unfold partRows; simp [List.filter_filter]

/-- spec level: restricting the interleaved stream's values to a partition gives the values of
the partition's own rows -/
theorem fieldSpecFrom_restrict (f : List α → α → β) (k : K) :
    ∀ (rows hist : List (FRow K α)),
      restrict k rows (fieldSpecFrom f hist rows) = fieldSpecFrom f (partRows k hist) (partRows k rows) := by
  intro rows
  induction rows with
  | nil => intro hist; rfl
  | cons r rs ih =>
    intro hist
    have ihh := ih (hist ++ [r])
    rw [partRows_snoc] at ihh
    by_cases hk : r.key = k
    · rw [if_pos hk] at ihh
      have e1 : partRows k (r :: rs) = r :: partRows k rs := by simp [partRows, hk]
      rw [e1]
      show restrict k (r :: rs) (gated f (partRows r.key hist) r :: fieldSpecFrom f (hist ++ [r]) rs) = _
      have e2 : restrict k (r :: rs) (gated f (partRows r.key hist) r :: fieldSpecFrom f (hist ++ [r]) rs) =
          gated f (partRows r.key hist) r :: restrict k rs (fieldSpecFrom f (hist ++ [r]) rs) := by
        simp [restrict, hk]
      rw [e2, ihh]
      show _ = gated f (partRows r.key (partRows k hist)) r :: _
      rw [hk, partRows_idem]
    · rw [if_neg hk] at ihh
      have e1 : partRows k (r :: rs) = partRows k rs := by simp [partRows, hk]
      rw [e1]
      show restrict k (r :: rs) (gated f (partRows r.key hist) r :: fieldSpecFrom f (hist ++ [r]) rs) = _
      have e2 : restrict k (r :: rs) (gated f (partRows r.key hist) r :: fieldSpecFrom f (hist ++ [r]) rs) =
          restrict k rs (fieldSpecFrom f (hist ++ [r]) rs) := by
        simp [restrict, hk]
      rw [e2, ihh]

theorem distinct_single (k : K) (l : List K) (h : ∀ x ∈ l, x = k) : (distinct l).length ≤ 1 := by
  induction l with
  | nil => simp [distinct]
  | cons x xs ih =>
    unfold distinct
    by_cases hx : x ∈ xs
    · rw [if_pos hx]; exact ih (fun y hy => h y (by simp [hy]))
    · rw [if_neg hx]
      have : xs = [] := by
        cases xs with
        | nil => rfl
        | cons y ys =>
          exfalso; apply hx
          have h1 := h x (by simp)
          have h2 := h y (by simp)
          rw [h1, h2]; simp
      subst this; simp [distinct]

theorem withinCap_partRows (cap : Nat) (hc : 1 ≤ cap) (k : K) (rows : List (FRow K α)) :
    withinCap cap (partRows k rows) = true := by
  unfold withinCap
  have : (distinct (liveKeys (partRows k rows))).length ≤ 1 := by
    apply distinct_single k
    intro x hx
    unfold liveKeys partRows at hx
    obtain ⟨r, hr, rfl⟩ := List.mem_map.1 hx
    have := (List.mem_filter.1 (List.mem_filter.1 hr).1).2
    simpa using this
  simp; omega

/-- interleaved rows of other partitions do not matter: the engine's outputs on the rows of `k`
are the engine's outputs on the rows of `k` alone -/
theorem engRun_isolation (cap : Nat) (hc : 1 ≤ cap) (m : Machine σ α β) (rows : List (FRow K α))
    (hcap : withinCap cap rows = true) (k : K) :
    restrict k rows (engRun cap m (Eng.empty : Eng K σ β) rows) =
      engRun cap m (Eng.empty : Eng K σ β) (partRows k rows) := by
  rw [engRun_eq_fieldSpec cap m rows hcap,
      engRun_eq_fieldSpec cap m (partRows k rows) (withinCap_partRows cap hc k rows)]
  unfold fieldSpec
  rw [fieldSpecFrom_restrict]
  rfl

end isolation

section eviction
variable {K σ α β : Type} [DecidableEq K]

theorem getLast?_map_fst (l : List (K × σ)) (p : K × σ) (h : l.getLast? = some p) :
    l.map (·.1) = (l.dropLast).map (·.1) ++ [p.1] := by
  obtain ⟨ys, hys⟩ := List.getLast?_eq_some_iff.1 h
  subst hys
  simp

/-- above the cap: a live row of a new key, arriving when the engine is full, evicts the back
entry; that partition restarts from the initial state and its cached value is gone -/
theorem evict_resets (cap : Nat) (m : Machine σ α β) (e : Eng K σ β) (k kb : K) (sb : σ) (a : α)
    (hnd : (keysOf e).Nodup) (hfull : e.lru.length = cap) (hpos : 1 ≤ cap)
    (hnew : k ∉ keysOf e) (hback : e.lru.getLast? = some (kb, sb)) :
    absSt m.init (evalLive cap m e k a).1 kb = m.init ∧ absLast (evalLive cap m e k a).1 kb = none := by
  have hl : lookupK k e.lru = none := (lookupK_none_iff k e.lru).2 hnew
  have hkb : kb ∈ keysOf e := by
    have := getLast?_map_fst e.lru (kb, sb) hback
    unfold keysOf; rw [this]; simp
  have hne : kb ≠ k := fun h => hnew (h ▸ hkb)
  have hne' : k ≠ kb := fun h => hne h.symm
  -- shape of the LRU list after `touch`
  have hlast' : ((k, m.init) :: e.lru).getLast? = some (kb, sb) := by
    cases hlru : e.lru with
    | nil => rw [hlru] at hback; simp at hback
    | cons p ps => rw [hlru] at hback; simpa [List.getLast?_cons_cons] using hback
  have htouch : touch cap m.init e k =
      { lru := ((k, m.init) :: e.lru).dropLast, last := eraseK kb e.last } := by
    unfold touch
    rw [hl]
    unfold evictIfOver
    rw [if_pos (by simp; omega)]
    unfold evict
    simp only [hlast']
  have hdl : ((k, m.init) :: e.lru).dropLast = (k, m.init) :: e.lru.dropLast := by
    cases hlru : e.lru with
    | nil => rw [hlru] at hback; simp at hback
    | cons p ps => simp
  -- `kb` occurred once, at the back
  have hkeys := getLast?_map_fst e.lru (kb, sb) hback
  have hnot : kb ∉ (e.lru.dropLast).map (·.1) := by
    have hnd' := hnd
    unfold keysOf at hnd'
    rw [hkeys] at hnd'
    have := (List.nodup_append.1 hnd').2.2
    intro hmem
    exact this kb hmem kb (by simp) rfl
  unfold evalLive
  rw [htouch, hdl]
  constructor
  · simp only [absSt, setLast, setHead, headState]
    rw [lookupK_cons_ne kb _ _ hne', (lookupK_none_iff kb _).2 hnot]
    rfl
  · simp only [absLast, setLast, setHead, headState]
    rw [lookupK_cons_ne kb _ _ hne', lookupK_eraseK_ne k kb _ hne, lookupK_eraseK_self]

end eviction

section whereOrder
variable {S R O : Type}

/-- WHERE without analytic calls: the analytic machine only ever sees the passing rows -/
theorem runRows_free (plain : R → Bool) (post : R → O → Bool) (A : Machine S R O) :
    ∀ (rows : List R) (s : S),
      (runRows false plain post A s rows).filterMap id = A.outs s (rows.filter plain) := by
  intro rows
  induction rows with
  | nil => intro s; rfl
  | cons r rs ih =>
    intro s
    by_cases hp : plain r = true
    · simp [runRows, stepRow, hp, Machine.outs, ih]
    · have hp' : plain r = false := by simpa using hp
      simp [runRows, stepRow, hp', ih]

/-- a row that fails a WHERE without analytic calls is not emitted and leaves every state alone -/
theorem runRows_free_emits (plain : R → Bool) (post : R → O → Bool) (A : Machine S R O) :
    ∀ (rows : List R) (s : S),
      (runRows false plain post A s rows).map Option.isSome = rows.map plain := by
  intro rows
  induction rows with
  | nil => intro s; rfl
  | cons r rs ih =>
    intro s
    by_cases hp : plain r = true
    · simp [runRows, stepRow, hp, ih]
    · have hp' : plain r = false := by simpa using hp
      simp [runRows, stepRow, hp', ih]

/-- WHERE with analytic calls: every row is evaluated (all rows count), emission is decided
afterwards on the row's own analytic values -/
theorem runRows_uses (plain : R → Bool) (post : R → O → Bool) (A : Machine S R O) :
    ∀ (rows : List R) (s : S),
      runRows true plain post A s rows =
        (rows.zip (A.outs s rows)).map (fun p => if post p.1 p.2 then some p.2 else none) := by
  intro rows
  induction rows with
  | nil => intro s; rfl
  | cons r rs ih =>
    intro s
    simp [runRows, stepRow, Machine.outs, ih]

end whereOrder
end Analytic
