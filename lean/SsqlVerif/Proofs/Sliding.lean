/-
Helper lemmas for C08: the sliding-window state machine (event time, ALLOWEDLATENESS = 0).
Core Lean only.
-/
import SsqlVerif.Proofs.TumblingInv
import SsqlVerif.Model.Sliding
set_option autoImplicit false
set_option linter.unusedVariables false
set_option linter.unusedSimpArgs false

namespace Sliding
open Wm Tumbling

def geCur (c : Int) (r : Row) : Bool := decide (c ≤ r.ts)

theorem filter_geCur_mono (l : List Row) (c c' : Int) (h : c ≤ c') :
    (l.filter (geCur c)).filter (geCur c') = l.filter (geCur c') := by
  rw [List.filter_filter]
  apply List.filter_congr
  intro r _
  simp only [geCur, Bool.and_eq_true, decide_eq_true_eq]
  by_cases h' : c' ≤ r.ts
  · have : c ≤ r.ts := by omega
    simp [h', this]
  · simp [h']

theorem filter_inSlot_of_geCur (l : List Row) (size c : Int) :
    (l.filter (geCur c)).filter (inSlot size c) = l.filter (inSlot size c) := by
  rw [List.filter_filter]
  apply List.filter_congr
  intro r _
  simp only [geCur, inSlot]
  by_cases h : c ≤ r.ts <;> simp [h]

/-! ### state invariant -/

structure Good (s : SW) : Prop where
  hsize : 0 < s.size
  hslide : 0 < s.slide
  hinit : s.cur = none → s.data = [] ∧ s.acc = [] ∧ s.accCur = [] ∧ s.advanced = false
  halign : ∀ c, s.cur = some c → s.slide ∣ c
  htrig : ∀ w, s.trigW = some w → leOpt w s.wm.cur
  hchan : ∀ w ∈ s.wm.chan, leOpt w s.wm.cur
  /-- rows at or after the current slot are never evicted -/
  hacc : ∀ c, s.cur = some c → s.data.filter (geCur c) = s.acc.filter (geCur c)
  hfresh : s.advanced = false → s.data = s.acc
  /-- once the loop has advanced, the last passed slot ended at or below the watermark -/
  hpassed : s.advanced = true → ∀ c, s.cur = some c → leOpt (c - s.slide + s.size) s.wm.cur
  hlog : s.accCur.map (·.1) = s.acc
  /-- before the loop advances, the current slot is the earliest slide-aligned start among accepted rows -/
  hlo : s.advanced = false → ∀ c, s.cur = some c → ∀ x ∈ s.acc, c ≤ x.ts

theorem good_init (size slide ooo : Int) (hs : 0 < size) (hl : 0 < slide) : Good (init size slide ooo) :=
  { hsize := hs, hslide := hl
    hinit := fun _ => ⟨rfl, rfl, rfl, rfl⟩
    halign := by intro c h; cases h
    htrig := by intro w h; cases h
    hchan := by intro w h; cases h
    hacc := by intro c h; cases h
    hfresh := fun _ => rfl
    hpassed := by intro h; cases h
    hlog := rfl
    hlo := by intro _ c h; cases h }

theorem curInit_dvd (s : SW) (r : Row) (hg : Good s) : s.slide ∣ curInit s r := by
  unfold curInit
  cases hc : s.cur with
  | none => exact alignDown_dvd _ _
  | some c => exact hg.halign c hc

theorem curAfterAdd_dvd (s : SW) (r : Row) (now : Int) (hg : Good s) : s.slide ∣ curAfterAdd s r now := by
  unfold curAfterAdd
  split
  · exact curInit_dvd s r hg
  · split
    · exact alignDown_dvd _ _
    · exact curInit_dvd s r hg

/-- the slot after an Add: unchanged, or (only while not advanced) moved down to the row's aligned start -/
theorem curAfterAdd_cases (s : SW) (r : Row) (now : Int) :
    curAfterAdd s r now = curInit s r ∨
    (s.advanced = false ∧ lateNow s r now = false ∧ r.ts < curInit s r ∧ curAfterAdd s r now = alignDown r.ts s.slide) := by
  unfold curAfterAdd
  split
  · exact Or.inl rfl
  · rename_i hl
    split
    · rename_i h; exact Or.inr ⟨h.2, by simpa using hl, h.1, rfl⟩
    · exact Or.inl rfl

/-- a kept row is at or above the slot after its Add -/
theorem kept_ge_cur (s : SW) (r : Row) (now : Int) (hg : Good s) (ht : 0 ≤ r.ts) (hk : kept s r now = true)
    (hadv : s.advanced = false ∨ lateNow s r now = true ∨ curInit s r ≤ r.ts) : curAfterAdd s r now ≤ r.ts := by
  rcases curAfterAdd_cases s r now with h | ⟨_, _, _, h⟩
  · rw [h]
    unfold kept at hk
    by_cases hl : lateNow s r now = true
    · simp only [hl, Bool.not_true, Bool.false_or] at hk
      simp only [inSlot, Bool.and_eq_true, decide_eq_true_eq] at hk; exact hk.1
    · -- on time and not re-seated: the row is not below the slot
      unfold curAfterAdd at h
      rw [if_neg hl] at h
      by_cases hlt : r.ts < curInit s r ∧ s.advanced = false
      · rw [if_pos hlt] at h
        have := alignDown_le r.ts s.slide ht hg.hslide
        omega
      · rcases hadv with ha | ha | ha
        · have : ¬ r.ts < curInit s r := fun h' => hlt ⟨h', ha⟩
          omega
        · exact absurd ha hl
        · exact ha
  · rw [h]; exact alignDown_le _ _ ht hg.hslide

/-- an on-time row in an advanced state is not below the current slot's predecessor's end, hence
it is either at/after the current slot or in the gap before it (slide > size) -/
theorem ontime_ge_passed (s : SW) (r : Row) (now : Int) (hg : Good s) (c : Int) (hc : s.cur = some c)
    (hadv : s.advanced = true) (hl : lateNow s r now = false) : c - s.slide + s.size ≤ r.ts :=
  not_late_ge (wmAfter s r now) r.ts _ (by simpa [lateNow] using hl)
    (updateEventTime_cur _ _ _ _ (hg.hpassed hadv c hc))

end Sliding

namespace Sliding
open Wm Tumbling

theorem curAfterAdd_le_curInit (s : SW) (r : Row) (now : Int) (hg : Good s) (ht : 0 ≤ r.ts) :
    curAfterAdd s r now ≤ curInit s r := by
  rcases curAfterAdd_cases s r now with h | ⟨_, _, hlt, h⟩
  · rw [h]; exact Int.le_refl _
  · rw [h]; have := alignDown_le r.ts s.slide ht hg.hslide; omega

theorem good_add (s : SW) (r : Row) (now : Int) (hg : Good s) (ht : 0 ≤ r.ts) : Good (stepAdd s r now) := by
  have hmono : ∀ x, leOpt x s.wm.cur → leOpt x (wmAfter s r now).cur :=
    fun x hx => updateEventTime_cur _ _ _ _ hx
  have hc' : (stepAdd s r now).cur = some (curAfterAdd s r now) := rfl
  refine
    { hsize := hg.hsize, hslide := hg.hslide
      hinit := by intro h; rw [hc'] at h; cases h
      halign := by intro c hc; rw [hc'] at hc; cases hc; exact curAfterAdd_dvd s r now hg
      htrig := fun w hw => hmono w (hg.htrig w hw)
      hchan := fun w hw => updateEventTime_chan _ _ _ _ hg.hchan hw
      hacc := ?_
      hfresh := ?_
      hpassed := ?_
      hlog := ?_
      hlo := ?_ }
  · -- hacc
    intro c hc; rw [hc'] at hc; cases hc
    show (if kept s r now then s.data ++ [r] else s.data).filter (geCur (curAfterAdd s r now))
       = (if kept s r now then s.acc ++ [r] else s.acc).filter (geCur (curAfterAdd s r now))
    rcases curAfterAdd_cases s r now with h | ⟨hfr, _, _, h⟩
    · rw [h]
      cases hcur : s.cur with
      | none =>
        obtain ⟨h1, h2, _, _⟩ := hg.hinit hcur
        rw [h1, h2]
      | some c0 =>
        have hci : curInit s r = c0 := by simp [curInit, hcur]
        rw [hci]
        have := hg.hacc c0 hcur
        split
        · rw [List.filter_append, List.filter_append, this]
        · exact this
    · rw [hg.hfresh hfr]
  · -- hfresh
    intro hadv
    show (if kept s r now then s.data ++ [r] else s.data) = (if kept s r now then s.acc ++ [r] else s.acc)
    rw [hg.hfresh hadv]
  · -- hpassed
    intro hadv c hc
    rw [hc'] at hc; cases hc
    have hadv' : s.advanced = true := hadv
    cases hcur : s.cur with
    | none => have := (hg.hinit hcur).2.2.2; rw [this] at hadv'; cases hadv'
    | some c0 =>
      have hci : curInit s r = c0 := by simp [curInit, hcur]
      rcases curAfterAdd_cases s r now with h | ⟨hfr, _, _, _⟩
      · rw [h, hci]; exact hmono _ (hg.hpassed hadv' c0 hcur)
      · rw [hfr] at hadv'; cases hadv'
  · -- hlog
    show (if kept s r now then s.accCur ++ [(r, curAfterAdd s r now)] else s.accCur).map (·.1)
       = (if kept s r now then s.acc ++ [r] else s.acc)
    split
    · rw [List.map_append, hg.hlog]; rfl
    · exact hg.hlog
  · -- hlo
    intro hadv c hc x hx
    rw [hc'] at hc; cases hc
    have hadv' : s.advanced = false := hadv
    have hx' : x ∈ (if kept s r now then s.acc ++ [r] else s.acc) := hx
    have hold : ∀ y ∈ s.acc, curAfterAdd s r now ≤ y.ts := by
      intro y hy
      cases hcur : s.cur with
      | none => rw [(hg.hinit hcur).2.1] at hy; cases hy
      | some c0 =>
        have h1 := hg.hlo hadv' c0 hcur y hy
        have h2 := curAfterAdd_le_curInit s r now hg ht
        simp only [curInit, hcur] at h2
        omega
    split at hx'
    · rename_i hk
      simp only [List.mem_append, List.mem_singleton] at hx'
      rcases hx' with h | h
      · exact hold x h
      · rw [h]; exact kept_ge_cur s r now hg ht hk (Or.inl hadv')
    · exact hold x hx'

theorem good_fireOrSkip (s : SW) (c w : Int) (hg : Good s) (hcur : s.cur = some c)
    (htr : s.trigW = some w) (hw : c + s.size ≤ w) : Good (fireOrSkip s c).1 := by
  have hpassed' : leOpt (c + s.slide - s.slide + s.size) s.wm.cur := by
    obtain ⟨y, hy, hwy⟩ := hg.htrig w htr
    exact ⟨y, hy, by omega⟩
  have hle : c ≤ c + s.slide := by have := hg.hslide; omega
  have hacc0 := hg.hacc c hcur
  have hskip : s.data.filter (geCur (c + s.slide)) = s.acc.filter (geCur (c + s.slide)) := by
    rw [← filter_geCur_mono s.data c _ hle, hacc0, filter_geCur_mono _ c _ hle]
  unfold fireOrSkip
  split
  · exact
      { hsize := hg.hsize, hslide := hg.hslide
        hinit := by intro h; cases h
        halign := by intro c' hc'; cases hc'; exact Int.dvd_add (hg.halign c hcur) (Int.dvd_refl _)
        htrig := hg.htrig, hchan := hg.hchan
        hacc := by intro c' hc'; cases hc'; exact hskip
        hfresh := by intro h; cases h
        hpassed := by intro _ c' hc'; cases hc'; exact hpassed'
        hlog := hg.hlog
        hlo := by intro h; cases h }
  · exact
      { hsize := hg.hsize, hslide := hg.hslide
        hinit := by intro h; cases h
        halign := by intro c' hc'; cases hc'; exact Int.dvd_add (hg.halign c hcur) (Int.dvd_refl _)
        htrig := hg.htrig, hchan := hg.hchan
        hacc := by
          intro c' hc'; cases hc'
          show (evict s c).filter (geCur (c + s.slide)) = s.acc.filter (geCur (c + s.slide))
          have : evict s c = s.data.filter (geCur (c + s.slide)) := rfl
          rw [this, List.filter_filter]
          simp only [Bool.and_self]
          exact hskip
        hfresh := by intro h; cases h
        hpassed := by intro _ c' hc'; cases hc'; exact hpassed'
        hlog := hg.hlog
        hlo := by intro h; cases h }

theorem good_iter (s : SW) (hg : Good s) : Good (stepIter s).1 := by
  unfold stepIter
  split
  · rename_i w c htr hcur
    split
    · rename_i hw; exact good_fireOrSkip s c w hg hcur htr hw
    · exact
        { hsize := hg.hsize, hslide := hg.hslide, hinit := hg.hinit, halign := hg.halign
          htrig := by intro w' h; cases h
          hchan := hg.hchan, hacc := hg.hacc, hfresh := hg.hfresh, hpassed := hg.hpassed
          hlog := hg.hlog, hlo := hg.hlo }
  · exact
      { hsize := hg.hsize, hslide := hg.hslide, hinit := hg.hinit, halign := hg.halign
        htrig := by intro w' h; cases h
        hchan := hg.hchan, hacc := hg.hacc, hfresh := hg.hfresh, hpassed := hg.hpassed
        hlog := hg.hlog, hlo := hg.hlo }
  · exact hg

theorem good_pop (s : SW) (hg : Good s) : Good (stepPop s) := by
  unfold stepPop
  split
  · rename_i w wm' htr hp
    obtain ⟨hmem, hcur, hsub⟩ := pop_mem _ _ _ hp
    exact
      { hsize := hg.hsize, hslide := hg.hslide, hinit := hg.hinit, halign := hg.halign
        htrig := by
          intro w' h; simp only [Option.some.injEq] at h; rw [← h, hcur]; exact hg.hchan w hmem
        hchan := by intro y hy; rw [hcur]; exact hg.hchan y (hsub y hy)
        hacc := hg.hacc, hfresh := hg.hfresh
        hpassed := by intro h c hc; rw [hcur]; exact hg.hpassed h c hc
        hlog := hg.hlog, hlo := hg.hlo }
  · exact hg

def OpOk : Op → Prop
  | .add r _ => 0 ≤ r.ts
  | _ => True

instance (op : Op) : Decidable (OpOk op) := by
  cases op <;> simp only [OpOk] <;> infer_instance

theorem good_step (s : SW) (op : Op) (hg : Good s) (hok : OpOk op) : Good (step s op).1 := by
  cases op with
  | add r now => exact good_add s r now hg hok
  | addNoTs => exact hg
  | tick idle now =>
    exact
      { hsize := hg.hsize, hslide := hg.hslide, hinit := hg.hinit, halign := hg.halign
        htrig := fun w h => tick_cur _ _ _ _ (hg.htrig w h)
        hchan := fun w h => tick_chan _ _ _ _ hg.hchan h
        hacc := hg.hacc, hfresh := hg.hfresh
        hpassed := fun h c hc => tick_cur _ _ _ _ (hg.hpassed h c hc)
        hlog := hg.hlog, hlo := hg.hlo }
  | pop => exact good_pop s hg
  | iter => exact good_iter s hg

theorem good_run (s : SW) (ops : List Op) (hg : Good s) (hok : ∀ op ∈ ops, OpOk op) : Good (run s ops).1 := by
  induction ops generalizing s with
  | nil => exact hg
  | cons op ops ih =>
    simp only [run]
    exact ih _ (good_step s op hg (hok op (by simp))) (fun o ho => hok o (by simp [ho]))

end Sliding
