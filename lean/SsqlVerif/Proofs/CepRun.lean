/-
Helper lemmas for C15: the engine's partition table over a whole history of ops
(`Cep.run`): every partition satisfies `Inv` with respect to its own rows, the outputs of a
partition form a `Chain`, and a partition's outputs do not depend on other partitions' rows.
Core Lean only.
-/
import SsqlVerif.Proofs.CepEngine
set_option autoImplicit false
set_option linter.unusedVariables false
set_option linter.unusedSimpArgs false
set_option linter.unusedSectionVars false

namespace Cep
section
variable {κ ρ : Type} [DecidableEq κ]

/-- the rows of partition `k` in arrival order -/
def histOf (k : κ) : List (Op κ ρ) → List ρ
  | [] => []
  | .row k' r :: ops => if k' = k then r :: histOf k ops else histOf k ops
  | .flush :: ops => histOf k ops

theorem histOf_append (k : κ) : ∀ (a b : List (Op κ ρ)), histOf k (a ++ b) = histOf k a ++ histOf k b
  | [], b => rfl
  | .row k' r :: a, b => by
    simp only [List.cons_append, histOf]
    split <;> simp [histOf_append k a b]
  | .flush :: a, b => by simp [histOf, histOf_append k a b]

/-- the matches reported for partition `k`, in order -/
def outsOf (k : κ) (outs : List (List (κ × Match ρ))) : List (Match ρ) :=
  (outs.flatten.filter (fun x => x.1 == k)).map (·.2)

theorem outsOf_cons (k : κ) (o : List (κ × Match ρ)) (outs : List (List (κ × Match ρ))) :
    outsOf k (o :: outs) = outsOf k [o] ++ outsOf k outs := by
  simp [outsOf, List.filter_append]

theorem outsOf_tagKey_self (k : κ) (ms : List (Match ρ)) : outsOf k [tagKey k ms] = ms := by
  simp only [outsOf, tagKey, List.flatten_cons, List.flatten_nil, List.append_nil]
  induction ms with
  | nil => rfl
  | cons m ms ih => simp [List.filter_cons, ih]

theorem outsOf_tagKey_other {k k' : κ} (h : k' ≠ k) (ms : List (Match ρ)) : outsOf k [tagKey k' ms] = [] := by
  simp only [outsOf, tagKey, List.flatten_cons, List.flatten_nil, List.append_nil]
  induction ms with
  | nil => rfl
  | cons m ms ih => simp [List.filter_cons, h, ih]

/-! ### the partition table -/

def keysOf (e : Engine κ ρ) : List κ := e.parts.map (·.1)

theorem getPart_mem {e : Engine κ ρ} {k : κ} (h : k ∈ keysOf e) : (k, getPart e k) ∈ e.parts := by
  unfold getPart
  cases hf : e.parts.find? (fun x => x.1 == k) with
  | none =>
    exfalso
    obtain ⟨x, hx, rfl⟩ := List.mem_map.1 h
    have := List.find?_eq_none.1 hf x hx
    simp at this
  | some x =>
    have h1 := List.mem_of_find?_eq_some hf
    have h2 := List.find?_some hf
    simp at h2
    subst h2
    exact h1

theorem getPart_absent {e : Engine κ ρ} {k : κ} (h : k ∉ keysOf e) : getPart e k = {} := by
  unfold getPart
  cases hf : e.parts.find? (fun x => x.1 == k) with
  | none => rfl
  | some x =>
    exfalso
    have h1 := List.mem_of_find?_eq_some hf
    have h2 := List.find?_some hf
    simp at h2
    subst h2
    exact h (List.mem_map.2 ⟨x, h1, rfl⟩)

theorem any_key_iff (e : Engine κ ρ) (k : κ) : e.parts.any (fun x => x.1 == k) = true ↔ k ∈ keysOf e := by
  simp only [keysOf, List.any_eq_true, List.mem_map, beq_iff_eq]

theorem keysOf_setPart (e : Engine κ ρ) (k : κ) (p : Part ρ) :
    keysOf (setPart e k p) = if k ∈ keysOf e then keysOf e else keysOf e ++ [k] := by
  unfold setPart
  by_cases h : k ∈ keysOf e
  · rw [if_pos ((any_key_iff e k).2 h), if_pos h]
    simp only [keysOf, List.map_map]
    apply List.map_congr_left
    intro x hx
    simp only [Function.comp]
    split
    · next hk => exact (by simpa using hk : x.1 = k).symm
    · rfl
  · rw [if_neg (fun hh => h ((any_key_iff e k).1 hh)), if_neg h]
    simp [keysOf]

theorem nodup_setPart {e : Engine κ ρ} (h : (keysOf e).Nodup) (k : κ) (p : Part ρ) : (keysOf (setPart e k p)).Nodup := by
  rw [keysOf_setPart]
  split
  · exact h
  · next hk =>
    exact List.nodup_append.2 ⟨h, by simp, by
      intro a ha b hb; rw [List.mem_singleton.1 hb]; intro hh; exact hk (hh ▸ ha)⟩

theorem find_map_key {α : Type} (l : List (κ × α)) (k : κ) (f : κ × α → κ × α) (hf : ∀ x, (f x).1 = x.1) :
    (l.map f).find? (fun x => x.1 == k) = (l.find? (fun x => x.1 == k)).map f := by
  induction l with
  | nil => rfl
  | cons x xs ih =>
    simp only [List.map_cons, List.find?_cons, hf]
    split
    · rfl
    · exact ih

theorem getPart_setPart_self (e : Engine κ ρ) (k : κ) (p : Part ρ) : getPart (setPart e k p) k = p := by
  unfold setPart
  split
  · next hany =>
    have hk := (any_key_iff e k).1 hany
    unfold getPart
    simp only
    rw [find_map_key e.parts k _ (by intro x; split <;> simp_all)]
    have hm := getPart_mem hk
    cases hf : e.parts.find? (fun x => x.1 == k) with
    | none =>
      have := List.find?_eq_none.1 hf _ hm
      simp at this
    | some x =>
      have h2 := List.find?_some hf
      have h3 : x.1 = k := by simpa using h2
      simp [h3]
  · next hany =>
    have hk : k ∉ keysOf e := fun hh => hany ((any_key_iff e k).2 hh)
    unfold getPart
    simp only [List.find?_append]
    cases hf : e.parts.find? (fun x => x.1 == k) with
    | none => simp
    | some x =>
      exfalso
      have h1 := List.mem_of_find?_eq_some hf
      have h2 := List.find?_some hf
      simp at h2
      subst h2
      exact hk (List.mem_map.2 ⟨x, h1, rfl⟩)

theorem getPart_setPart_other (e : Engine κ ρ) {k k' : κ} (h : k' ≠ k) (p : Part ρ) :
    getPart (setPart e k' p) k = getPart e k := by
  unfold setPart
  split
  · unfold getPart
    simp only
    have : ∀ l : List (κ × Part ρ),
        (l.map fun x => if (x.1 == k') = true then (k', p) else x).find? (fun x => x.1 == k) =
        l.find? (fun x => x.1 == k) := by
      intro l
      induction l with
      | nil => rfl
      | cons x xs ih =>
        simp only [List.map_cons, List.find?_cons]
        by_cases hx : x.1 = k'
        · have e1 : (x.1 == k') = true := by simp [hx]
          have e2 : (k' == k) = false := by simp [h]
          have e3 : (x.1 == k) = false := by simp [hx, h]
          rw [if_pos e1]
          simp only [e2, e3]
          exact ih
        · have e1 : ¬ (x.1 == k') = true := by simp [hx]
          rw [if_neg e1]
          cases hxk : (x.1 == k) with
          | true => rfl
          | false => exact ih
    rw [this]
  · unfold getPart
    simp only [List.find?_append]
    cases hf : e.parts.find? (fun x => x.1 == k) with
    | none => simp [h]
    | some x => simp

/-! ### `Flush` over the table -/

theorem flushPart_default (c : Cfg ρ) : flushPart c ({} : Part ρ) = ({}, []) := by
  unfold flushPart emitFlush
  cases hl : c.lazy <;>
    simp [flushStart, ingest, emitGreedy, minStart, prunePending, sortLazy, emitLazy]

theorem flushAll_keys (c : Cfg ρ) : ∀ (parts : List (κ × Part ρ)), (flushAll c parts).1.map (·.1) = parts.map (·.1)
  | [] => rfl
  | (k, p) :: rest => by simp [flushAll, consFlush, flushAll_keys c rest]

theorem flushAll_find (c : Cfg ρ) (k : κ) : ∀ (parts : List (κ × Part ρ)),
    (flushAll c parts).1.find? (fun x => x.1 == k) =
      (parts.find? (fun x => x.1 == k)).map (fun x => (x.1, (flushPart c x.2).1))
  | [] => rfl
  | (k0, p) :: rest => by
    simp only [flushAll, consFlush, List.find?_cons]
    split
    · rfl
    · exact flushAll_find c k rest

theorem getPart_flush (c : Cfg ρ) (e : Engine κ ρ) (k : κ) :
    getPart ({ parts := (flushAll c e.parts).1 } : Engine κ ρ) k = (flushPart c (getPart e k)).1 := by
  unfold getPart
  simp only [flushAll_find]
  cases e.parts.find? (fun x => x.1 == k) with
  | none => simp [flushPart_default]
  | some x => rfl

theorem flushAll_mem (c : Cfg ρ) : ∀ (parts : List (κ × Part ρ)) (x : κ × Match ρ),
    x ∈ (flushAll c parts).2 → ∃ p, (x.1, p) ∈ parts ∧ x.2 ∈ (flushPart c p).2
  | [], x, h => by cases h
  | (k, p) :: rest, x, h => by
    simp only [flushAll, consFlush] at h
    rcases List.mem_append.1 h with h | h
    · obtain ⟨m, hm, rfl⟩ := List.mem_map.1 h
      exact ⟨p, List.mem_cons_self .., hm⟩
    · obtain ⟨q, hq, hx⟩ := flushAll_mem c rest x h
      exact ⟨q, List.mem_cons_of_mem _ hq, hx⟩

theorem flushAll_parts_mem (c : Cfg ρ) : ∀ (parts : List (κ × Part ρ)) (x : κ × Part ρ),
    x ∈ (flushAll c parts).1 → ∃ p, (x.1, p) ∈ parts ∧ x.2 = (flushPart c p).1
  | [], x, h => by cases h
  | (k, p) :: rest, x, h => by
    simp only [flushAll, consFlush] at h
    rcases List.mem_cons.1 h with rfl | h
    · exact ⟨p, List.mem_cons_self .., rfl⟩
    · obtain ⟨q, hq, hx⟩ := flushAll_parts_mem c rest x h
      exact ⟨q, List.mem_cons_of_mem _ hq, hx⟩

theorem outsOf_flushAll_absent (c : Cfg ρ) (k : κ) : ∀ (parts : List (κ × Part ρ)), k ∉ parts.map (·.1) →
    outsOf k [(flushAll c parts).2] = []
  | [], _ => rfl
  | (k0, p) :: rest, h => by
    have hk0 : k0 ≠ k := fun hh => h (by simp [hh])
    have hrest : k ∉ rest.map (·.1) := fun hh => h (by simp at hh ⊢; exact Or.inr hh)
    have ih := outsOf_flushAll_absent c k rest hrest
    have h1 := outsOf_tagKey_other hk0 (flushPart c p).2
    simp only [outsOf, List.flatten_cons, List.flatten_nil, List.append_nil] at ih h1 ⊢
    simp only [flushAll, consFlush, List.filter_append, List.map_append, ih, h1, List.append_nil]

theorem outsOf_flushAll (c : Cfg ρ) (k : κ) : ∀ (parts : List (κ × Part ρ)), (parts.map (·.1)).Nodup →
    outsOf k [(flushAll c parts).2] =
      (flushPart c (getPart ({ parts := parts } : Engine κ ρ) k)).2
  | [], _ => by simp [getPart, flushPart_default, outsOf, flushAll]
  | (k0, p) :: rest, hnd => by
    simp only [List.map_cons, List.nodup_cons] at hnd
    by_cases hk : k0 = k
    · subst hk
      have h1 := outsOf_flushAll_absent c k0 rest hnd.1
      have h2 := outsOf_tagKey_self k0 (flushPart c p).2
      simp only [outsOf, List.flatten_cons, List.flatten_nil, List.append_nil] at h1 h2 ⊢
      simp only [flushAll, consFlush, List.filter_append, List.map_append, h1, h2, List.append_nil]
      simp [getPart]
    · have ih := outsOf_flushAll c k rest hnd.2
      have h1 := outsOf_tagKey_other hk (flushPart c p).2
      simp only [outsOf, List.flatten_cons, List.flatten_nil, List.append_nil] at ih h1 ⊢
      simp only [flushAll, consFlush, List.filter_append, List.map_append, ih, h1, List.nil_append]
      simp [getPart, List.find?_cons, hk]

/-! ### invariants over a history -/

/-- every stored partition satisfies `Inv` for its own rows; partitions never seen have no rows;
keys are stored once -/
structure EInv (c : Cfg ρ) (pre : List (Op κ ρ)) (e : Engine κ ρ) : Prop where
  parts : ∀ x ∈ e.parts, Inv c (histOf x.1 pre) x.2
  absent : ∀ k, k ∉ keysOf e → histOf k pre = []
  nodup : (keysOf e).Nodup

theorem EInv.init (c : Cfg ρ) : EInv c ([] : List (Op κ ρ)) ({} : Engine κ ρ) :=
  { parts := fun x h => (by cases h), absent := fun k _ => rfl, nodup := List.nodup_nil }

theorem EInv.getPart {c : Cfg ρ} {pre : List (Op κ ρ)} {e : Engine κ ρ} (h : EInv c pre e) (k : κ) :
    Inv c (histOf k pre) (getPart e k) := by
  by_cases hk : k ∈ keysOf e
  · exact h.parts _ (getPart_mem hk)
  · rw [getPart_absent hk, h.absent k hk]; exact Inv.init c

theorem histOf_snoc_row (k k' : κ) (pre : List (Op κ ρ)) (r : ρ) :
    histOf k (pre ++ [Op.row k' r]) = if k' = k then histOf k pre ++ [r] else histOf k pre := by
  rw [histOf_append]; simp only [histOf]; split <;> simp

theorem histOf_snoc_flush (k : κ) (pre : List (Op κ ρ)) :
    histOf k (pre ++ [Op.flush]) = histOf k pre := by
  rw [histOf_append]; simp [histOf]

theorem mem_setPart {e : Engine κ ρ} {k : κ} {p : Part ρ} {x : κ × Part ρ} (h : x ∈ (setPart e k p).parts) :
    x = (k, p) ∨ (x ∈ e.parts ∧ x.1 ≠ k) := by
  unfold setPart at h
  split at h
  · obtain ⟨y, hy, rfl⟩ := List.mem_map.1 h
    split
    · exact Or.inl rfl
    · next hne => exact Or.inr ⟨hy, by simpa using hne⟩
  · next hany =>
    rcases List.mem_append.1 h with h | h
    · refine Or.inr ⟨h, fun hh => hany ?_⟩
      exact List.any_eq_true.2 ⟨x, h, by simp [hh]⟩
    · exact Or.inl (List.mem_singleton.1 h)

theorem step_inv {c : Cfg ρ} (hw : 0 ≤ c.within) {pre : List (Op κ ρ)} {e : Engine κ ρ} (h : EInv c pre e)
    (op : Op κ ρ) : EInv c (pre ++ [op]) (step c e op).1 := by
  cases op with
  | row k r =>
    simp only [step]
    have hp := (stepPart_ok hw (h.getPart k) r).inv
    refine { parts := ?_, absent := ?_, nodup := ?_ }
    · intro x hx
      rcases mem_setPart hx with rfl | ⟨hx, hne⟩
      · simpa [histOf_snoc_row] using hp
      · rw [histOf_snoc_row, if_neg (fun hh => hne hh.symm)]
        exact h.parts x hx
    · intro k' hk'
      rw [keysOf_setPart] at hk'
      have hne : k ≠ k' := by
        intro hh; subst hh
        split at hk'
        · next hin => exact hk' hin
        · exact hk' (by simp)
      have hk'' : k' ∉ keysOf e := by
        split at hk'
        · exact hk'
        · exact fun hh => hk' (List.mem_append_left _ hh)
      rw [histOf_snoc_row, if_neg hne]
      exact h.absent k' hk''
    · exact nodup_setPart h.nodup _ _
  | flush =>
    simp only [step]
    have hkeys : keysOf ({ parts := (flushAll c e.parts).1 } : Engine κ ρ) = keysOf e := flushAll_keys c e.parts
    refine { parts := ?_, absent := ?_, nodup := by rw [hkeys]; exact h.nodup }
    · intro x hx
      obtain ⟨p, hp, hx2⟩ := flushAll_parts_mem c e.parts x hx
      rw [histOf_snoc_flush, hx2]
      exact (flushPart_ok (h.parts _ hp)).inv
    · intro k hk
      rw [hkeys] at hk
      rw [histOf_snoc_flush]
      exact h.absent k hk

/-- what one op emits -/
theorem step_out {c : Cfg ρ} (hw : 0 ≤ c.within) {pre : List (Op κ ρ)} {e : Engine κ ρ} (h : EInv c pre e)
    (op : Op κ ρ) : ∀ x ∈ (step c e op).2, ∃ b, Cand c (histOf x.1 (pre ++ [op])) b ∧
      x.2.rows = b.hist ∧ x.2.startSeq = b.startSeq := by
  intro x hx
  cases op with
  | row k r =>
    simp only [step, tagKey] at hx
    obtain ⟨m, hm, rfl⟩ := List.mem_map.1 hx
    obtain ⟨b, hb, h1, h2⟩ := (stepPart_ok hw (h.getPart k) r).out m hm
    exact ⟨b, by simpa [histOf_snoc_row] using hb, h1, h2⟩
  | flush =>
    simp only [step] at hx
    obtain ⟨p, hp, hm⟩ := flushAll_mem c e.parts x hx
    obtain ⟨b, hb, h1, h2⟩ := (flushPart_ok (h.parts _ hp)).out x.2 hm
    exact ⟨b, by simpa [histOf_snoc_flush] using hb, h1, h2⟩

theorem run_cons (c : Cfg ρ) (e : Engine κ ρ) (op : Op κ ρ) (ops : List (Op κ ρ)) :
    run c e (op :: ops) = ((run c (step c e op).1 ops).1, (step c e op).2 :: (run c (step c e op).1 ops).2) := rfl

/-- every match emitted during a history is a candidate of its partition's final row list -/
theorem run_out {c : Cfg ρ} (hw : 0 ≤ c.within) : ∀ (ops pre : List (Op κ ρ)) (e : Engine κ ρ), EInv c pre e →
    ∀ o ∈ (run c e ops).2, ∀ x ∈ o, ∃ b, Cand c (histOf x.1 (pre ++ ops)) b ∧
      x.2.rows = b.hist ∧ x.2.startSeq = b.startSeq
  | [], pre, e, h, o, ho, _, _ => by simp [run] at ho
  | op :: ops, pre, e, h, o, ho, x, hx => by
    rw [run_cons] at ho
    rcases List.mem_cons.1 ho with rfl | ho
    · obtain ⟨b, hb, h1, h2⟩ := step_out hw h op x hx
      refine ⟨b, ?_, h1, h2⟩
      have : pre ++ op :: ops = (pre ++ [op]) ++ ops := by simp
      rw [this, histOf_append]
      exact hb.mono _
    · have := run_out hw ops (pre ++ [op]) _ (step_inv hw h op) o ho x hx
      simpa using this

/-- one op extends the chain of partition `k` -/
theorem step_chain {c : Cfg ρ} (hw : 0 ≤ c.within) {pre : List (Op κ ρ)} {e : Engine κ ρ} (h : EInv c pre e)
    (op : Op κ ρ) (k : κ) :
    Chain c (getPart e k).nextStart (getPart e k).matchNo (outsOf k [(step c e op).2])
      (getPart (step c e op).1 k).nextStart (getPart (step c e op).1 k).matchNo := by
  cases op with
  | row k' r =>
    simp only [step]
    by_cases hk : k' = k
    · subst hk
      rw [outsOf_tagKey_self, getPart_setPart_self]
      exact (stepPart_ok hw (h.getPart k') r).chain
    · rw [outsOf_tagKey_other hk, getPart_setPart_other e hk]
      exact Chain.nil _ _
  | flush =>
    simp only [step]
    rw [getPart_flush]
    have := outsOf_flushAll c k e.parts h.nodup
    rw [this]
    exact (flushPart_ok (h.getPart k)).chain

theorem run_chain {c : Cfg ρ} (hw : 0 ≤ c.within) (k : κ) : ∀ (ops pre : List (Op κ ρ)) (e : Engine κ ρ), EInv c pre e →
    Chain c (getPart e k).nextStart (getPart e k).matchNo (outsOf k (run c e ops).2)
      (getPart (run c e ops).1 k).nextStart (getPart (run c e ops).1 k).matchNo
  | [], pre, e, h => by simpa [run, outsOf] using Chain.nil _ _
  | op :: ops, pre, e, h => by
    rw [run_cons, outsOf_cons]
    exact (step_chain hw h op k).append (run_chain hw k ops (pre ++ [op]) _ (step_inv hw h op))

/-! ### partition isolation -/

/-- the ops partition `k` can see: its own rows and the flushes -/
def relevant (k : κ) : Op κ ρ → Bool
  | .row k' _ => k' == k
  | .flush => true

theorem isolation_aux {c : Cfg ρ} (k : κ) : ∀ (ops : List (Op κ ρ)) (e1 e2 : Engine κ ρ),
    (keysOf e1).Nodup → (keysOf e2).Nodup → getPart e1 k = getPart e2 k →
    outsOf k (run c e1 ops).2 = outsOf k (run c e2 (ops.filter (relevant k))).2
  | [], e1, e2, _, _, _ => by simp [run]
  | .row k' r :: ops, e1, e2, n1, n2, hg => by
    by_cases hk : k' = k
    · subst hk
      simp only [List.filter_cons, relevant, beq_self_eq_true, if_true]
      rw [run_cons, run_cons, outsOf_cons, outsOf_cons (o := (step c e2 (Op.row k' r)).2)]
      simp only [step]
      rw [outsOf_tagKey_self, outsOf_tagKey_self, hg]
      congr 1
      exact isolation_aux k' ops _ _ (nodup_setPart n1 _ _) (nodup_setPart n2 _ _)
        (by rw [getPart_setPart_self, getPart_setPart_self])
    · have hrel : relevant k (Op.row k' r : Op κ ρ) = false := by simp [relevant, hk]
      simp only [List.filter_cons, hrel]
      rw [run_cons, outsOf_cons]
      simp only [step, Bool.false_eq_true, if_false]
      rw [outsOf_tagKey_other hk, List.nil_append]
      exact isolation_aux k ops _ e2 (nodup_setPart n1 _ _) n2 (by rw [getPart_setPart_other e1 hk]; exact hg)
  | .flush :: ops, e1, e2, n1, n2, hg => by
    simp only [List.filter_cons, relevant, if_true]
    rw [run_cons, run_cons, outsOf_cons, outsOf_cons (o := (step c e2 Op.flush).2)]
    simp only [step]
    rw [outsOf_flushAll c k e1.parts n1, outsOf_flushAll c k e2.parts n2]
    have h1 : getPart ({ parts := e1.parts } : Engine κ ρ) k = getPart e1 k := rfl
    have h2 : getPart ({ parts := e2.parts } : Engine κ ρ) k = getPart e2 k := rfl
    rw [h1, h2, hg]
    congr 1
    refine isolation_aux k ops _ _ ?_ ?_ ?_
    · show (List.map (·.1) (flushAll c e1.parts).1).Nodup
      rw [flushAll_keys]; exact n1
    · show (List.map (·.1) (flushAll c e2.parts).1).Nodup
      rw [flushAll_keys]; exact n2
    · rw [getPart_flush, getPart_flush, hg]

end
end Cep
