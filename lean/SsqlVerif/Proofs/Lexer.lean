/-
Helper lemmas for C11 (lexer layer), part 1: progress and the unfolding of `lexAll`.
Core Lean only.
-/
import SsqlVerif.Model.Lexer
set_option autoImplicit false

namespace Lexer

/-! ### what `startOf` says about a byte -/

theorem punct_ne_letter (b : Byte) : punct b ≠ .letter := by
  unfold punct; split <;> simp

theorem punct_ne_digit (b : Byte) : punct b ≠ .digit := by
  unfold punct; split <;> simp

theorem punct_ne_ws (b : Byte) : punct b ≠ .ws := by
  unfold punct; split <;> simp

theorem startOf_letter {b : Byte} (h : startOf b = .letter) : isLetter b = true := by
  unfold startOf at h
  split at h
  · assumption
  · split at h
    · cases h
    · split at h
      · cases h
      · exact absurd h (punct_ne_letter b)

theorem startOf_digit {b : Byte} (h : startOf b = .digit) : isDigit b = true := by
  unfold startOf at h
  split at h
  · cases h
  · split at h
    · assumption
    · split at h
      · cases h
      · exact absurd h (punct_ne_digit b)

theorem isIdentChar_of_letter {b : Byte} (h : isLetter b = true) : isIdentChar b = true := by
  simp [isIdentChar, h]

theorem isNumChar_of_digit {b : Byte} (h : isDigit b = true) : isNumChar b = true := by
  simp [isNumChar, h]

theorem wordKind_ne_eof (w : List Byte) : wordKind w ≠ .eof := by
  unfold wordKind wordKindIn
  split <;> simp

/-! ### lengths -/

theorem takeWhile_length_le {α : Type} (p : α → Bool) (l : List α) : (l.takeWhile p).length ≤ l.length := by
  induction l with
  | nil => simp
  | cons a l ih => simp only [List.takeWhile_cons]; split <;> simp <;> omega

theorem take_drop_length {α : Type} (p : α → Bool) (l : List α) :
    (l.takeWhile p).length + (l.dropWhile p).length = l.length := by
  induction l with
  | nil => simp
  | cons a l ih =>
    simp only [List.takeWhile_cons, List.dropWhile_cons]
    split <;> simp <;> omega

theorem nextIsEq_length {rest : List Byte} (h : nextIsEq rest = true) : 1 ≤ rest.length := by
  cases rest with
  | nil => simp [nextIsEq] at h
  | cons c r => simp

theorem closedBy_length {q : Byte} {l : List Byte} (h : closedBy q l = true) : 1 ≤ l.length := by
  cases l with
  | nil => simp [closedBy] at h
  | cons c r => simp

theorem wordAt_le (s : List Byte) : (wordAt s).2 ≤ s.length := takeWhile_length_le _ _
theorem numberAt_le (s : List Byte) : (numberAt s).2 ≤ s.length := takeWhile_length_le _ _

theorem minusAt_le (rest : List Byte) : (minusAt rest).2 ≤ rest.length + 1 := by
  unfold minusAt; split
  · have := takeWhile_length_le isNumChar rest; simp; omega
  · simp

theorem cmpAt_le (b : Byte) (k1 k2 : Kind) (rest : List Byte) : (cmpAt b k1 k2 rest).2 ≤ rest.length + 1 := by
  unfold cmpAt; split
  · rename_i h; have := nextIsEq_length h; simp; omega
  · simp

theorem bangAt_le (rest : List Byte) : (bangAt rest).2 ≤ rest.length + 1 := by
  unfold bangAt; split
  · rename_i h; have := nextIsEq_length h; simp; omega
  · simp

theorem quotedAt_le (k : Kind) (q : Byte) (rest : List Byte) : (quotedAt k q rest).2 ≤ rest.length + 1 := by
  unfold quotedAt; split
  · rename_i h
    have h1 := closedBy_length h
    have h2 := take_drop_length (inLiteral q) rest
    simp; omega
  · have := takeWhile_length_le (inLiteral q) rest; simp; omega

/-- a token never extends past the end of the input -/
theorem tokenAt_le (s : List Byte) : (tokenAt s).2 ≤ s.length := by
  cases s with
  | nil => simp [tokenAt]
  | cons b rest =>
    simp only [tokenAt]
    split
    · simp
    · simp
    · exact minusAt_le rest
    · exact cmpAt_le _ _ _ rest
    · exact bangAt_le rest
    · exact quotedAt_le _ _ rest
    · exact quotedAt_le _ _ rest
    · exact wordAt_le _
    · exact numberAt_le _
    · simp
    · simp

/-- every token other than EOF consumes at least one byte -/
theorem tokenAt_pos (s : List Byte) (h : (tokenAt s).1.kind ≠ .eof) : 1 ≤ (tokenAt s).2 := by
  cases s with
  | nil => simp [tokenAt, eofTok] at h
  | cons b rest =>
    simp only [tokenAt] at h ⊢
    split at h
    · simp [eofTok] at h
    · simp
    · unfold minusAt; split <;> simp
    · unfold cmpAt; split <;> simp
    · unfold bangAt at h ⊢; split at h
      · rename_i h'; simp [h']
      · simp [eofTok] at h
    · unfold quotedAt; split <;> simp
    · unfold quotedAt; split <;> simp
    · rename_i hs
      have := isIdentChar_of_letter (startOf_letter hs)
      simp [wordAt, this]
    · rename_i hs
      have := isNumChar_of_digit (startOf_digit hs)
      simp [numberAt, this]
    · simp [eofTok] at h
    · simp [eofTok] at h

theorem junkLen_le (s : List Byte) : junkLen s ≤ s.length := by
  induction s with
  | nil => simp [junkLen]
  | cons b rest ih => unfold junkLen; split <;> simp <;> omega

/-- `NextToken` never reads past the end of the input -/
theorem nextToken_le (s : List Byte) : (nextToken s).2 ≤ s.length := by
  have h1 := junkLen_le s
  have h2 := tokenAt_le (s.drop (junkLen s))
  simp only [nextToken, List.length_drop] at h2 ⊢
  omega

/-- every `NextToken` call that does not return EOF consumes at least one byte -/
theorem nextToken_pos (s : List Byte) (h : (nextToken s).1.kind ≠ .eof) : 1 ≤ (nextToken s).2 := by
  have := tokenAt_pos (s.drop (junkLen s)) h
  simp only [nextToken]; omega

/-! ### `lexAll` is the `NextToken` loop -/

theorem lexAux_drop (n : Nat) (s : List Byte) : lexAux n s = lexAux 0 (s.drop n) := by
  induction n generalizing s with
  | zero => simp
  | succ n ih =>
    cases s with
    | nil => simp [lexAux]
    | cons b rest => simp only [lexAux, List.drop_succ_cons]; exact ih rest

theorem lexAll_nil : lexAll [] = [eofTok] := by simp [lexAll, lexAux]

/-- the loop "call `NextToken` until it returns `TokenEOF`" -/
theorem lexAll_unfold (s : List Byte) :
    lexAll s = if (nextToken s).1.kind = .eof then [eofTok]
               else (nextToken s).1 :: lexAll (s.drop (nextToken s).2) := by
  cases s with
  | nil => simp [lexAll, lexAux, nextToken, junkLen, tokenAt, eofTok]
  | cons b rest =>
    unfold lexAll
    rw [lexAux]
    split
    · rfl
    · rename_i h
      have hp := nextToken_pos (b :: rest) h
      rw [lexAux_drop]
      congr 2
      generalize (nextToken (b :: rest)).2 = n at hp
      cases n with
      | zero => omega
      | succ n => simp

/-! ### token values are slices of the input -/

theorem take_takeWhile_length {α : Type} (p : α → Bool) (l : List α) :
    l.take (l.takeWhile p).length = l.takeWhile p := by
  induction l with
  | nil => simp
  | cons a l ih =>
    simp only [List.takeWhile_cons]
    split
    · simp [ih]
    · simp

theorem punct_minus {b : Byte} (h : punct b = .minus) : b = 45 := by
  unfold punct at h
  split at h <;> first | rfl | cases h

theorem punct_bang {b : Byte} (h : punct b = .bang) : b = 33 := by
  unfold punct at h
  split at h <;> first | rfl | cases h

theorem startOf_punct {b : Byte} {x : Start} (h : startOf b = x) (h1 : x ≠ .letter) (h2 : x ≠ .digit) (h3 : x ≠ .ws) :
    punct b = x := by
  unfold startOf at h
  split at h
  · exact absurd h.symm h1
  · split at h
    · exact absurd h.symm h2
    · split at h
      · exact absurd h.symm h3
      · exact h

theorem nextIsEq_cons {rest : List Byte} (h : nextIsEq rest = true) : ∃ r, rest = 61 :: r := by
  unfold nextIsEq at h
  split at h
  · exact ⟨_, rfl⟩
  · cases h

theorem closedBy_cons {q : Byte} {l : List Byte} (h : closedBy q l = true) : ∃ r, l = q :: r := by
  cases l with
  | nil => simp [closedBy] at h
  | cons c r => simp only [closedBy, beq_iff_eq] at h; exact ⟨r, by rw [h]⟩

theorem quotedAt_val (k : Kind) (q : Byte) (rest : List Byte) :
    (quotedAt k q rest).1.val = (q :: rest).take (quotedAt k q rest).2 := by
  unfold quotedAt
  split
  · rename_i h
    obtain ⟨r, hr⟩ := closedBy_cons h
    have e : rest = rest.takeWhile (inLiteral q) ++ q :: r := by
      rw [← hr, List.takeWhile_append_dropWhile]
    simp only [List.take_succ_cons, List.cons.injEq, true_and]
    generalize List.takeWhile (inLiteral q) rest = tw at e ⊢
    subst e
    rw [show tw.length + 1 = (tw ++ [q]).length by simp]
    rw [show tw ++ q :: r = (tw ++ [q]) ++ r by simp]
    rw [List.take_left]
  · simp [take_takeWhile_length]

/-- the value of a token is the slice of the input it was read from -/
theorem tokenAt_val (s : List Byte) : (tokenAt s).1.val = s.take (tokenAt s).2 := by
  cases s with
  | nil => simp [tokenAt, eofTok]
  | cons b rest =>
    simp only [tokenAt]
    split
    · simp [eofTok]
    · simp
    · rename_i hs
      have hb := punct_minus (startOf_punct hs (by simp) (by simp) (by simp))
      subst hb
      unfold minusAt; split
      · simp [take_takeWhile_length]
      · simp
    · unfold cmpAt; split
      · rename_i h; obtain ⟨r, hr⟩ := nextIsEq_cons h; subst hr; simp
      · simp
    · rename_i hs
      have hb := punct_bang (startOf_punct hs (by simp) (by simp) (by simp))
      subst hb
      unfold bangAt; split
      · rename_i h; obtain ⟨r, hr⟩ := nextIsEq_cons h; subst hr; simp
      · simp [eofTok]
    · exact quotedAt_val _ _ _
    · exact quotedAt_val _ _ _
    · simp [wordAt, take_takeWhile_length]
    · simp [numberAt, take_takeWhile_length]
    · simp [eofTok]
    · simp [eofTok]

/-- `NextToken` splits what it consumed into skipped junk and the token's value -/
theorem nextToken_slice (s : List Byte) :
    s.take (nextToken s).2 = s.take (junkLen s) ++ (nextToken s).1.val := by
  simp only [nextToken]
  rw [tokenAt_val (s.drop (junkLen s))]
  rw [List.take_add]

/-- shape of the token stream: finitely many non-EOF tokens, then exactly one EOF; at most one token
per input byte -/
theorem lexAll_shape (n : Nat) : ∀ s : List Byte, s.length ≤ n →
    ∃ ts, lexAll s = ts ++ [eofTok] ∧ (∀ t ∈ ts, t.kind ≠ .eof) ∧ ts.length ≤ s.length := by
  induction n with
  | zero =>
    intro s hs
    have : s = [] := List.eq_nil_of_length_eq_zero (by omega)
    subst this
    exact ⟨[], by simp [lexAll_nil], by simp, by simp⟩
  | succ n ih =>
    intro s hs
    rw [lexAll_unfold]
    by_cases h : (nextToken s).1.kind = .eof
    · exact ⟨[], by simp [h], by simp, by simp⟩
    · have hp := nextToken_pos s h
      have hl := nextToken_le s
      have hd : (s.drop (nextToken s).2).length ≤ n := by simp only [List.length_drop]; omega
      obtain ⟨ts, h1, h2, h3⟩ := ih _ hd
      refine ⟨(nextToken s).1 :: ts, by simp [h, h1], ?_, ?_⟩
      · intro t ht
        cases ht with
        | head => exact h
        | tail _ ht => exact h2 t ht
      · simp only [List.length_drop] at h3
        simp only [List.length_cons]; omega

end Lexer
