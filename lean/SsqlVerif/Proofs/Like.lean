/-
Helper lemmas for C13: the two-pointer LIKE loop equals the declarative spec.
Invariant: a match exists from (ti,pi), or by re-anchoring the last `%` at some m' > matchIdx.
Potential mi*(|p|+1)+pi strictly increases, so the fuel of `likeImpl` suffices.
Core Lean only.
-/
import SsqlVerif.Model.Like
import SsqlVerif.Spec.Like
set_option autoImplicit false
set_option linter.unusedSectionVars false
set_option linter.unusedSimpArgs false
set_option linter.unusedVariables false

namespace Like
section
variable {α : Type} [DecidableEq α] (pct und : α)

theorem tails_any (f : List α → Bool) (t : List α) :
    (tails t).any f = true ↔ ∃ k, k ≤ t.length ∧ f (t.drop k) = true := by
  induction t with
  | nil =>
    simp [tails]
  | cons x xs ih =>
    simp only [tails, List.any_cons, Bool.or_eq_true, ih]
    constructor
    · rintro (h | ⟨k, hk, h⟩)
      · exact ⟨0, by simp, by simpa using h⟩
      · exact ⟨k+1, by simp; omega, by simpa using h⟩
    · rintro ⟨k, hk, h⟩
      cases k with
      | zero => left; simpa using h
      | succ k => right; exact ⟨k, by simp at hk; omega, by simpa using h⟩

theorem spec_pct (p t : List α) :
    likeSpec pct und (pct :: p) t = true ↔ ∃ k, k ≤ t.length ∧ likeSpec pct und p (t.drop k) = true := by
  show (if pct = pct then (tails t).any (likeSpec pct und p) else _) = true ↔ _
  rw [if_pos rfl]
  exact tails_any _ _

theorem spec_lit (q : α) (hq : q ≠ pct) (p : List α) (c : α) (t : List α) :
    likeSpec pct und (q :: p) (c :: t) = ((decide (q = und) || decide (q = c)) && likeSpec pct und p t) := by
  simp [likeSpec, hq]

theorem spec_lit_nil (q : α) (hq : q ≠ pct) (p : List α) :
    likeSpec pct und (q :: p) [] = false := by
  simp [likeSpec, hq]

theorem spec_nil_cons (c : α) (t : List α) : likeSpec pct und [] (c :: t) = false := by
  simp [likeSpec]

/-- empty text: matches iff pattern is all `%` -/
theorem spec_empty (p : List α) : likeSpec pct und p [] = p.all (fun q => decide (q = pct)) := by
  induction p with
  | nil => simp [likeSpec]
  | cons q p ih =>
    by_cases h : q = pct
    · rw [h]
      have : likeSpec pct und (pct :: p) [] = likeSpec pct und p [] := by
        simp [likeSpec, tails]
      simp [this, ih]
    · simp [spec_lit_nil pct und q h, h]

/-- a pattern starting with `%`: matching a suffix implies matching the whole -/
theorem spec_pct_suffix (p t : List α) (k : Nat)
    (h : likeSpec pct und (pct :: p) (t.drop k) = true) : likeSpec pct und (pct :: p) t = true := by
  rw [spec_pct] at h ⊢
  obtain ⟨j, hj, hm⟩ := h
  by_cases hk : k ≤ t.length
  · refine ⟨k + j, ?_, ?_⟩
    · simp at hj; omega
    · simpa [List.drop_drop, Nat.add_comm] using hm
  · have : t.drop k = [] := List.drop_eq_nil_of_le (by omega)
    rw [this] at hm hj
    simp at hj; subst hj
    refine ⟨t.length, Nat.le_refl _, ?_⟩
    simpa using hm

/-- literal prefix: a pattern starting with L non-`%` symbols consumes exactly L text symbols -/
theorem spec_lits (lits q u : List α) (hl : ∀ x ∈ lits, x ≠ pct)
    (h : likeSpec pct und (lits ++ q) u = true) :
    lits.length ≤ u.length ∧ likeSpec pct und q (u.drop lits.length) = true := by
  induction lits generalizing u with
  | nil => simpa using h
  | cons x xs ih =>
    have hx : x ≠ pct := hl x (by simp)
    cases u with
    | nil => simp [spec_lit_nil pct und x hx] at h
    | cons c u' =>
      rw [List.cons_append, spec_lit pct und x hx] at h
      simp only [Bool.and_eq_true] at h
      have := ih u' (fun y hy => hl y (by simp [hy])) h.2
      simp only [List.length_cons, List.drop_succ_cons]
      exact ⟨by omega, this.2⟩

structure LInv (t p : List α) (ti pi : Nat) (star : Option Nat) (mi : Nat) : Prop where
  hti : ti ≤ t.length
  hpi : pi ≤ p.length
  hstar : ∀ s, star = some s → s < pi ∧ p[s]? = some pct ∧ mi ≤ ti ∧ ti - mi = pi - (s+1) ∧
            ∀ k, s+1 ≤ k → k < pi → p[k]? ≠ some pct
  hnone : star = none → mi = 0

def M (t p : List α) (i j : Nat) : Bool := likeSpec pct und (p.drop j) (t.drop i)

def R (t p : List α) (ti pi : Nat) (star : Option Nat) (mi : Nat) : Prop :=
  M pct und t p ti pi = true ∨
  ∃ s, star = some s ∧ ∃ m', mi < m' ∧ m' ≤ t.length ∧ M pct und t p m' (s+1) = true

/-- splitting the pattern after a `%` at `s` into its `%`-free run up to `pi` and the rest -/
theorem drop_split (p : List α) (s pi : Nat) (hs : s < pi) (hpi : pi ≤ p.length)
    (hfree : ∀ k, s+1 ≤ k → k < pi → p[k]? ≠ some pct) :
    ∃ lits, p.drop (s+1) = lits ++ p.drop pi ∧ lits.length = pi - (s+1) ∧ ∀ x ∈ lits, x ≠ pct := by
  refine ⟨(p.drop (s+1)).take (pi - (s+1)), ?_, ?_, ?_⟩
  · have : p.drop pi = (p.drop (s+1)).drop (pi - (s+1)) := by
      rw [List.drop_drop]; congr 1; omega
    rw [this, List.take_append_drop]
  · simp; omega
  · intro x hx
    rw [List.mem_iff_getElem?] at hx
    obtain ⟨i, hi⟩ := hx
    rw [List.getElem?_take] at hi
    split at hi
    · rename_i hlt
      rw [List.getElem?_drop] at hi
      intro hxp
      exact hfree (s+1+i) (by omega) (by omega) (by rw [hi, hxp])
    · simp at hi

theorem drop_of_getElem? (l : List α) (i : Nat) (x : α) (h : l[i]? = some x) :
    l.drop i = x :: l.drop (i+1) := by
  have hi : i < l.length := by
    rcases Nat.lt_or_ge i l.length with h' | h'
    · exact h'
    · rw [List.getElem?_eq_none h'] at h; cases h
  rw [List.getElem?_eq_getElem hi] at h
  cases h
  exact List.drop_eq_getElem_cons hi

/-- what the old `%` could still offer is subsumed by a new `%` at `pi` -/
theorem dominance (t p : List α) (ti pi mi s : Nat)
    (hs : s < pi) (hpi : pi ≤ p.length) (hmi : mi ≤ ti) (hL : ti - mi = pi - (s+1))
    (hfree : ∀ k, s+1 ≤ k → k < pi → p[k]? ≠ some pct)
    (hp : p[pi]? = some pct) (m' : Nat) (hm : mi < m')
    (hM : M pct und t p m' (s+1) = true) : M pct und t p ti pi = true := by
  obtain ⟨lits, hsplit, hlen, hne⟩ := drop_split pct p s pi hs hpi hfree
  unfold M at hM ⊢
  rw [hsplit] at hM
  obtain ⟨hle, hrest⟩ := spec_lits pct und lits (p.drop pi) (t.drop m') hne hM
  rw [drop_of_getElem? p pi pct hp] at hrest ⊢
  rw [List.drop_drop] at hrest
  have : t.drop (m' + lits.length) = (t.drop ti).drop (m' + lits.length - ti) := by
    rw [List.drop_drop]; congr 1; omega
  rw [this] at hrest
  exact spec_pct_suffix pct und _ _ _ hrest

/-- when the text is exhausted the old `%` has nothing left to offer -/
theorem exhausted_no_alt (t p : List α) (pi mi s : Nat)
    (hs : s < pi) (hpi : pi ≤ p.length) (hmi : mi ≤ t.length) (hL : t.length - mi = pi - (s+1))
    (hfree : ∀ k, s+1 ≤ k → k < pi → p[k]? ≠ some pct)
    (m' : Nat) (hm : mi < m') (hm' : m' ≤ t.length)
    (hM : M pct und t p m' (s+1) = true) : False := by
  obtain ⟨lits, hsplit, hlen, hne⟩ := drop_split pct p s pi hs hpi hfree
  unfold M at hM
  rw [hsplit] at hM
  obtain ⟨hle, _⟩ := spec_lits pct und lits (p.drop pi) (t.drop m') hne hM
  simp at hle
  omega

theorem loop_correct (t p : List α) :
    ∀ fuel ti pi star mi, LInv pct t p ti pi star mi →
      (t.length+1)*(p.length+1) + 1 ≤ fuel + (mi*(p.length+1) + pi) →
      (likeLoop pct und t p fuel ti pi star mi = true ↔ R pct und t p ti pi star mi) := by
  intro fuel
  induction fuel with
  | zero =>
    intro ti pi star mi hinv hfuel
    exfalso
    have h1 := hinv.hti
    have h2 := hinv.hpi
    have hmi : mi ≤ t.length := by
      cases hstar : star with
      | none => have := hinv.hnone hstar; omega
      | some s => have := (hinv.hstar s hstar).2.2.1; omega
    have : mi*(p.length+1) ≤ t.length*(p.length+1) := Nat.mul_le_mul_right _ hmi
    have : (t.length+1)*(p.length+1) = t.length*(p.length+1) + (p.length+1) := by
      rw [Nat.add_mul, Nat.one_mul]
    omega
  | succ fuel ih =>
    intro ti pi star mi hinv hfuel
    have hti := hinv.hti
    have hpi := hinv.hpi
    unfold likeLoop
    cases htc : t[ti]? with
    | none =>
      -- text exhausted
      have hlen : ti = t.length := by
        have := List.getElem?_eq_none_iff.mp htc
        omega
      simp only []
      unfold R M
      subst hlen
      rw [List.drop_length, spec_empty]
      constructor
      · intro h; exact Or.inl h
      · rintro (h | ⟨s, hs, m', hm, hm', hM⟩)
        · exact h
        · exfalso
          obtain ⟨h1, h2, h3, h4, h5⟩ := hinv.hstar s hs
          exact exhausted_no_alt pct und t p pi mi s h1 hpi h3 h4 h5 m' hm hm' hM
    | some c =>
      have hlt : ti < t.length := by
        rcases Nat.lt_or_ge ti t.length with h | h
        · exact h
        · rw [List.getElem?_eq_none h] at htc; cases htc
      have htdrop := drop_of_getElem? t ti c htc
      simp only []
      -- the back-tracking continuation, shared by two branches
      have back : ∀ st : Option Nat,
          (∀ s, st = some s → s < pi ∧ p[s]? = some pct ∧ mi ≤ ti ∧ ti - mi = pi - (s+1) ∧
            ∀ k, s+1 ≤ k → k < pi → p[k]? ≠ some pct) →
          M pct und t p ti pi = false →
          ((match st with
            | some s => likeLoop pct und t p fuel (mi+1) (s+1) st (mi+1)
            | none => false) = true ↔ R pct und t p ti pi st mi) := by
        intro st hst hMf
        cases st with
        | none =>
          simp only []
          unfold R
          simp [hMf]
        | some s =>
          simp only []
          obtain ⟨h1, h2, h3, h4, h5⟩ := hst s rfl
          have hinv' : LInv pct t p (mi+1) (s+1) (some s) (mi+1) :=
            { hti := by omega
              hpi := by omega
              hstar := by
                intro s' hs'
                cases hs'
                exact ⟨by omega, h2, Nat.le_refl _, by omega, by intro k hk1 hk2; omega⟩
              hnone := by intro h; cases h }
          have hf' : (t.length+1)*(p.length+1) + 1 ≤ fuel + ((mi+1)*(p.length+1) + (s+1)) := by
            have : (mi+1)*(p.length+1) = mi*(p.length+1) + (p.length+1) := by
              rw [Nat.add_mul, Nat.one_mul]
            omega
          rw [ih (mi+1) (s+1) (some s) (mi+1) hinv' hf']
          unfold R
          simp only [hMf, Bool.false_eq_true, false_or]
          constructor
          · rintro (h | ⟨s', hs', m', hm, hm', hM⟩)
            · exact ⟨s, rfl, mi+1, by omega, by omega, h⟩
            · cases hs'
              exact ⟨s, rfl, m', by omega, hm', hM⟩
          · rintro ⟨s', hs', m', hm, hm', hM⟩
            cases hs'
            by_cases hm1 : m' = mi+1
            · subst hm1; exact Or.inl hM
            · exact Or.inr ⟨s, rfl, m', by omega, hm', hM⟩
      cases hpc : p[pi]? with
      | none =>
        simp only []
        apply back star hinv.hstar
        have : p.drop pi = [] := by
          apply List.drop_eq_nil_of_le
          exact List.getElem?_eq_none_iff.mp hpc
        unfold M
        rw [this, htdrop, spec_nil_cons]
      | some q =>
        have hpdrop := drop_of_getElem? p pi q hpc
        have hplt : pi < p.length := by
          rcases Nat.lt_or_ge pi p.length with h | h
          · exact h
          · rw [List.getElem?_eq_none h] at hpc; cases hpc
        simp only []
        by_cases hq : q = pct
        · -- new `%`
          rw [if_pos hq]
          rw [hq] at hpc hpdrop
          have hmi_le : mi ≤ ti := by
            cases hstar : star with
            | none => have := hinv.hnone hstar; omega
            | some s => exact (hinv.hstar s hstar).2.2.1
          have hinv' : LInv pct t p ti (pi+1) (some pi) ti :=
            { hti := hti
              hpi := by omega
              hstar := by
                intro s' hs'
                cases hs'
                exact ⟨by omega, hpc, Nat.le_refl _, by omega, by intro k hk1 hk2; omega⟩
              hnone := by intro h; cases h }
          have hf' : (t.length+1)*(p.length+1) + 1 ≤ fuel + (ti*(p.length+1) + (pi+1)) := by
            have : mi*(p.length+1) ≤ ti*(p.length+1) := Nat.mul_le_mul_right _ hmi_le
            omega
          rw [ih ti (pi+1) (some pi) ti hinv' hf']
          -- R' ↔ M ti pi ↔ R
          have hR' : R pct und t p ti (pi+1) (some pi) ti ↔ M pct und t p ti pi = true := by
            unfold R M
            rw [hpdrop, spec_pct]
            constructor
            · rintro (h | ⟨s', hs', m', hm, hm', hM⟩)
              · exact ⟨0, by simp, by simpa using h⟩
              · cases hs'
                refine ⟨m' - ti, by simp; omega, ?_⟩
                rw [List.drop_drop]
                have : ti + (m' - ti) = m' := by omega
                rw [this]; exact hM
            · rintro ⟨k, hk, h⟩
              rw [List.drop_drop] at h
              cases k with
              | zero => exact Or.inl (by simpa using h)
              | succ k =>
                refine Or.inr ⟨pi, rfl, ti + (k+1), by omega, by simp at hk; omega, h⟩
          rw [hR']
          unfold R
          constructor
          · intro h; exact Or.inl h
          · rintro (h | ⟨s, hs, m', hm, hm', hM⟩)
            · exact h
            · obtain ⟨h1, h2, h3, h4, h5⟩ := hinv.hstar s hs
              exact dominance pct und t p ti pi mi s h1 hpi h3 h4 h5 hpc m' hm hM
        · rw [if_neg hq]
          by_cases hmatch : q = und ∨ q = c
          · -- literal / `_` match
            rw [if_pos hmatch]
            have hinv' : LInv pct t p (ti+1) (pi+1) star mi :=
              { hti := by omega
                hpi := by omega
                hstar := by
                  intro s hs
                  obtain ⟨h1, h2, h3, h4, h5⟩ := hinv.hstar s hs
                  refine ⟨by omega, h2, by omega, by omega, ?_⟩
                  intro k hk1 hk2
                  by_cases hk : k = pi
                  · subst hk; rw [hpc]; intro h; cases h; exact hq rfl
                  · exact h5 k hk1 (by omega)
                hnone := hinv.hnone }
            have hf' : (t.length+1)*(p.length+1) + 1 ≤ fuel + (mi*(p.length+1) + (pi+1)) := by
              omega
            rw [ih (ti+1) (pi+1) star mi hinv' hf']
            unfold R
            have hMeq : M pct und t p ti pi = M pct und t p (ti+1) (pi+1) := by
              unfold M
              rw [hpdrop, htdrop, spec_lit pct und q hq]
              have : (decide (q = und) || decide (q = c)) = true := by
                rcases hmatch with h | h <;> simp [h]
              rw [this, Bool.true_and]
            rw [hMeq]
          · -- mismatch
            rw [if_neg hmatch]
            apply back star hinv.hstar
            unfold M
            rw [hpdrop, htdrop, spec_lit pct und q hq]
            have : (decide (q = und) || decide (q = c)) = false := by
              simp only [not_or] at hmatch
              simp [hmatch.1, hmatch.2]
            rw [this, Bool.false_and]

theorem likeImpl_eq_spec (t p : List α) : likeImpl pct und t p = likeSpec pct und p t := by
  have hinv : LInv pct t p 0 0 none 0 :=
    { hti := Nat.zero_le _, hpi := Nat.zero_le _
      hstar := by intro s h; cases h
      hnone := fun _ => rfl }
  have h := loop_correct pct und t p ((t.length+1)*(p.length+1)+1) 0 0 none 0 hinv (by omega)
  unfold likeImpl
  have hR : R pct und t p 0 0 none 0 ↔ likeSpec pct und p t = true := by
    unfold R M
    simp
  rw [hR] at h
  cases h1 : likeLoop pct und t p ((t.length+1)*(p.length+1)+1) 0 0 none 0 <;>
    cases h2 : likeSpec pct und p t <;> simp_all
end
end Like
