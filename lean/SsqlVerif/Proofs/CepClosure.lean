/-
Helper lemmas for C15: compiled tables are well-formed (every out-edge points into the table)
and `closure` is complete: every ε-reachable state is in the closure (the fuel `|t| + 1` of
`Model/CepNfa.closure` suffices).  Needed only for the completeness direction of the engine.
Core Lean only.
-/
import SsqlVerif.Proofs.CepNfa
set_option autoImplicit false
set_option linter.unusedVariables false
set_option linter.unusedSimpArgs false

namespace Cep

def nodeOuts : Node → List Nat
  | .eps a b => a.toList ++ b.toList
  | .mtch _ o => [o]
  | .accept => []

/-- out-edges of the states a fragment adds stay inside the fragment or go to its target -/
structure FragWF (f : Frag) (sz : Nat) : Prop where
  len : ∀ k t, (f k t).2.length = t.length + sz
  ext : ∀ k t, Ext t (f k t).2
  outs : ∀ k t i nd, t.length ≤ i → (f k t).2[i]? = some nd → ∀ j ∈ nodeOuts nd,
    (t.length ≤ j ∧ j < t.length + sz) ∨ j = k
  start : ∀ k t, (t.length ≤ (f k t).1 ∧ (f k t).1 < t.length + sz) ∨ (f k t).1 = k

theorem snoc_get {t : Tbl} {x nd : Node} {i : Nat} (hi : t.length ≤ i) (h : (t ++ [x])[i]? = some nd) :
    i = t.length ∧ nd = x := by
  by_cases h1 : i = t.length
  · subst h1; simp at h; exact ⟨rfl, h.symm⟩
  · rw [List.getElem?_eq_none (by simp; omega)] at h; cases h

theorem litF_wf (a : Sym) : FragWF (litF a) 1 where
  len k t := by simp [litF]
  ext k t := Ext.append _ _
  outs k t i nd hi h j hj := by
    obtain ⟨_, rfl⟩ := snoc_get hi (by simpa [litF] using h)
    simp [nodeOuts] at hj; exact Or.inr hj
  start k t := Or.inl (by simp [litF])

theorem epsF_wf : FragWF epsF 1 where
  len k t := by simp [epsF]
  ext k t := Ext.append _ _
  outs k t i nd hi h j hj := by
    obtain ⟨_, rfl⟩ := snoc_get hi (by simpa [epsF] using h)
    simp [nodeOuts] at hj; exact Or.inr hj
  start k t := Or.inl (by simp [epsF])

theorem seqF_wf {f g : Frag} {sf sg : Nat} (hf : FragWF f sf) (hg : FragWF g sg) : FragWF (seqF f g) (sf + sg) where
  len k t := by simp only [seqF]; rw [hf.len, hg.len]; omega
  ext k t := (hg.ext k t).trans (hf.ext _ _)
  outs k t i nd hi h j hj := by
    simp only [seqF] at h
    have hgl := hg.len k t
    by_cases h1 : i < (g k t).2.length
    · rw [(hf.ext (g k t).1 (g k t).2).get h1] at h
      rcases hg.outs k t i nd hi h j hj with h2 | h2
      · exact Or.inl (by omega)
      · exact Or.inr h2
    · rcases hf.outs _ _ i nd (by omega) h j hj with h2 | h2
      · exact Or.inl (by omega)
      · rcases hg.start k t with h3 | h3
        · exact Or.inl (by omega)
        · exact Or.inr (by omega)
  start k t := by
    simp only [seqF]
    have hgl := hg.len k t
    rcases hf.start (g k t).1 (g k t).2 with h | h
    · exact Or.inl (by omega)
    · rcases hg.start k t with h3 | h3
      · exact Or.inl (by omega)
      · exact Or.inr (by omega)

theorem altF_wf {f g : Frag} {sf sg : Nat} (hf : FragWF f sf) (hg : FragWF g sg) : FragWF (altF f g) (sf + sg + 1) where
  len k t := by simp only [altF, List.length_append, List.length_singleton]; rw [hg.len, hf.len]; omega
  ext k t := ((hf.ext k t).trans (hg.ext _ _)).trans (Ext.append _ _)
  outs k t i nd hi h j hj := by
    simp only [altF] at h
    have hfl := hf.len k t
    have hgl := hg.len k (f k t).2
    by_cases h1 : i < (f k t).2.length
    · rw [((hg.ext k (f k t).2).trans (Ext.append _ _)).get h1] at h
      rcases hf.outs k t i nd hi h j hj with h2 | h2
      · exact Or.inl (by omega)
      · exact Or.inr h2
    · by_cases h2 : i < (g k (f k t).2).2.length
      · rw [(Ext.append _ _).get h2] at h
        rcases hg.outs k _ i nd (by omega) h j hj with h3 | h3
        · exact Or.inl (by omega)
        · exact Or.inr h3
      · obtain ⟨_, rfl⟩ := snoc_get (by omega) h
        simp only [nodeOuts, Option.toList, List.cons_append, List.nil_append, List.mem_cons, List.not_mem_nil, or_false] at hj
        rcases hj with rfl | rfl
        · rcases hf.start k t with h3 | h3
          · exact Or.inl (by omega)
          · exact Or.inr h3
        · rcases hg.start k (f k t).2 with h3 | h3
          · exact Or.inl (by omega)
          · exact Or.inr h3
  start k t := Or.inl (by
    simp only [altF]
    have hfl := hf.len k t
    have hgl := hg.len k (f k t).2
    omega)

theorem optF_wf {f : Frag} {sf : Nat} (hf : FragWF f sf) : FragWF (optF f) (sf + 1) where
  len k t := by simp only [optF, List.length_append, List.length_singleton]; rw [hf.len]; omega
  ext k t := (hf.ext k t).trans (Ext.append _ _)
  outs k t i nd hi h j hj := by
    simp only [optF] at h
    have hfl := hf.len k t
    by_cases h1 : i < (f k t).2.length
    · rw [(Ext.append _ _).get h1] at h
      rcases hf.outs k t i nd hi h j hj with h2 | h2
      · exact Or.inl (by omega)
      · exact Or.inr h2
    · obtain ⟨_, rfl⟩ := snoc_get (by omega) h
      simp only [nodeOuts, Option.toList, List.cons_append, List.nil_append, List.mem_cons, List.not_mem_nil, or_false] at hj
      rcases hj with rfl | rfl
      · rcases hf.start k t with h3 | h3
        · exact Or.inl (by omega)
        · exact Or.inr h3
      · exact Or.inr rfl
  start k t := Or.inl (by simp only [optF]; have hfl := hf.len k t; omega)

theorem starF_wf {f : Frag} {sf : Nat} (hf : FragWF f sf) : FragWF (starF f sf) (sf + 1) where
  len k t := by simp only [starF, List.length_append, List.length_singleton]; rw [hf.len]; omega
  ext k t := (hf.ext _ t).trans (Ext.append _ _)
  outs k t i nd hi h j hj := by
    simp only [starF] at h
    have hfl := hf.len (t.length + sf) t
    by_cases h1 : i < (f (t.length + sf) t).2.length
    · rw [(Ext.append _ _).get h1] at h
      rcases hf.outs _ t i nd hi h j hj with h2 | h2
      · exact Or.inl (by omega)
      · exact Or.inl (by omega)
    · obtain ⟨_, rfl⟩ := snoc_get (by omega) h
      simp only [nodeOuts, Option.toList, List.cons_append, List.nil_append, List.mem_cons, List.not_mem_nil, or_false] at hj
      rcases hj with rfl | rfl
      · rcases hf.start (t.length + sf) t with h3 | h3
        · exact Or.inl (by omega)
        · exact Or.inl (by omega)
      · exact Or.inr rfl
  start k t := Or.inl (by simp only [starF]; omega)

theorem iterF_wf {f : Frag} {sf : Nat} (hf : FragWF f sf) (n : Nat) : FragWF (iterF f n) (n * sf) := by
  induction n with
  | zero =>
    exact
      { len := fun k t => by simp [iterF]
        ext := fun k t => Ext.refl _
        outs := fun k t i nd hi h j hj => by
          simp only [iterF] at h; rw [List.getElem?_eq_none (by omega)] at h; cases h
        start := fun k t => Or.inr rfl }
  | succ n ih =>
    have h := seqF_wf hf ih
    have heq : iterF f (n+1) = seqF f (iterF f n) := by funext k t; simp [iterF, seqF]
    have hsz : (n + 1) * sf = sf + n * sf := by rw [Nat.succ_mul]; omega
    rw [heq, hsz]; exact h

theorem frag_wf : ∀ (p : Pat), FragWF (frag p) (size p)
  | .lit a => by simpa [frag, size] using litF_wf a
  | .empty => by simpa [frag, size] using epsF_wf
  | .seq p q => by simpa [frag, size] using seqF_wf (frag_wf p) (frag_wf q)
  | .alt p q => by simpa [frag, size] using altF_wf (frag_wf p) (frag_wf q)
  | .rep p mn none => by
    simpa [frag, size] using seqF_wf (iterF_wf (frag_wf p) mn) (starF_wf (frag_wf p))
  | .rep p mn (some mx) => by
    simp only [frag, size]
    by_cases h0 : mn = 0 ∧ mx = 0
    · rw [if_pos h0, if_pos h0]; exact epsF_wf
    · rw [if_neg h0, if_neg h0]
      exact seqF_wf (iterF_wf (frag_wf p) mn) (iterF_wf (optF_wf (frag_wf p)) (mx - mn))

/-- every out-edge and the start state of a compiled automaton are indices of its table -/
def TblWF (T : Tbl) : Prop := ∀ (i : Nat) (nd : Node), T[i]? = some nd → ∀ j ∈ nodeOuts nd, j < T.length

theorem compile_wf (p : Pat) : TblWF (compile p).tbl ∧ (compile p).start < (compile p).tbl.length := by
  have h := frag_wf p
  have hl := h.len acceptIdx [Node.accept]
  simp only [compile]
  refine ⟨?_, ?_⟩
  · intro i nd hi j hj
    by_cases h0 : i = 0
    · subst h0
      rw [(h.ext acceptIdx [Node.accept]).get (by simp)] at hi
      simp at hi; subst hi; simp [nodeOuts] at hj
    · rcases h.outs acceptIdx [Node.accept] i nd (by simp; omega) hi j hj with h1 | h1
      · rw [hl]; exact h1.2
      · rw [hl, h1]; simp [acceptIdx]; omega
  · rcases h.start acceptIdx [Node.accept] with h1 | h1
    · rw [hl]; exact h1.2
    · rw [hl, h1]; simp [acceptIdx]; omega


/-! ### `closure` reaches every ε-reachable state -/

theorem count_le_one_length {l : List Nat} (hn : l.Nodup) (a : Nat) :
    l.length ≤ (l.filter (fun x => x != a)).length + 1 := by
  induction l with
  | nil => simp
  | cons x xs ih =>
    simp only [List.nodup_cons] at hn
    by_cases hx : x = a
    · subst hx
      have : xs.filter (fun y => y != x) = xs := by
        apply List.filter_eq_self.2
        intro y hy
        have : y ≠ x := fun h => hn.1 (h ▸ hy)
        simpa using this
      simp [this]
    · have := ih hn.2
      simp [List.filter_cons, hx]
      omega

theorem nodup_bounded_length : ∀ (N : Nat) (l : List Nat), l.Nodup → (∀ x ∈ l, x < N) → l.length ≤ N
  | 0, l, _, hb => by
    cases l with
    | nil => simp
    | cons x xs => exact absurd (hb x (List.mem_cons_self ..)) (by omega)
  | N+1, l, hn, hb => by
    have h1 := count_le_one_length hn N
    have h2 := nodup_bounded_length N (l.filter (fun x => x != N))
      (List.Pairwise.sublist List.filter_sublist hn)
      (by
        intro x hx
        obtain ⟨hx1, hx2⟩ := List.mem_filter.1 hx
        have := hb x hx1
        have : x ≠ N := by simpa using hx2
        omega)
    omega

/-- the part of the loop state the fuel argument looks at -/
structure CInv (T : Tbl) (acc : List Nat × List Nat) : Prop where
  nodup : acc.1.Nodup
  bound : ∀ x ∈ acc.1, x < T.length
  sub : ∀ x ∈ acc.2, x ∈ acc.1

theorem pushNew_seen_mono {o : Option Nat} {acc : List Nat × List Nat} {x : Nat} (hx : x ∈ acc.1) :
    x ∈ (pushNew o acc).1 := by
  unfold pushNew
  cases o with
  | none => exact hx
  | some j => simp only; split
              · exact hx
              · exact List.mem_append_left _ hx

theorem pushNew_stack_mono {o : Option Nat} {acc : List Nat × List Nat} {x : Nat} (hx : x ∈ acc.2) :
    x ∈ (pushNew o acc).2 := by
  unfold pushNew
  cases o with
  | none => exact hx
  | some j => simp only; split
              · exact hx
              · exact List.mem_cons_of_mem _ hx

theorem pushNew_target {o : Option Nat} {acc : List Nat × List Nat} {j : Nat} (ho : o = some j) :
    j ∈ (pushNew o acc).1 := by
  subst ho
  unfold pushNew
  simp only
  split
  · next hc => simpa using hc
  · simp

theorem pushNew_new_on_stack {o : Option Nat} {acc : List Nat × List Nat} {x : Nat}
    (hx : x ∈ (pushNew o acc).1) (hn : x ∉ acc.1) : x ∈ (pushNew o acc).2 := by
  unfold pushNew at hx ⊢
  cases o with
  | none => exact absurd hx hn
  | some j =>
    simp only at hx ⊢
    split at hx
    · exact absurd hx hn
    · next hc =>
      rw [if_neg hc]
      rcases List.mem_append.1 hx with h | h
      · exact absurd h hn
      · rw [List.mem_singleton.1 h]; exact List.mem_cons_self ..

theorem pushNew_cinv {T : Tbl} {o : Option Nat} {acc : List Nat × List Nat} (h : CInv T acc)
    (ho : ∀ j, o = some j → j < T.length) : CInv T (pushNew o acc) := by
  unfold pushNew
  cases o with
  | none => exact h
  | some j =>
    simp only
    split
    · exact h
    · next hc =>
      have hnj : j ∉ acc.1 := by simpa using hc
      exact
        { nodup := List.nodup_append.2 ⟨h.nodup, by simp, by
            intro a ha b hb; rw [List.mem_singleton.1 hb]; intro hh; exact hnj (hh ▸ ha)⟩
          bound := by
            intro x hx
            rcases List.mem_append.1 hx with hx | hx
            · exact h.bound x hx
            · rw [List.mem_singleton.1 hx]; exact ho j rfl
          sub := by
            intro x hx
            rcases List.mem_cons.1 hx with hx | hx
            · rw [hx]; simp
            · exact List.mem_append_left _ (h.sub x hx) }

theorem pushNew_measure {T : Tbl} {o : Option Nat} {acc : List Nat × List Nat} (h : CInv T acc)
    (ho : ∀ j, o = some j → j < T.length) :
    (pushNew o acc).2.length + (T.length - (pushNew o acc).1.length) = acc.2.length + (T.length - acc.1.length) := by
  have hi := pushNew_cinv h ho
  have hlen := nodup_bounded_length T.length _ hi.nodup hi.bound
  unfold pushNew at hlen ⊢
  cases o with
  | none => rfl
  | some j =>
    simp only at hlen ⊢
    split
    · rfl
    · next hc =>
      rw [if_neg hc] at hlen
      simp only [List.length_append, List.length_singleton, List.length_cons, List.length_nil] at hlen ⊢
      omega

theorem closureLoop_complete (T : Tbl) (hwf : TblWF T) :
    ∀ (fuel : Nat) (stack seen : List Nat), CInv T (seen, stack) →
      (∀ x ∈ seen, x ∉ stack → ∀ y, EpsStep T x y → y ∈ seen) →
      stack.length + (T.length - seen.length) ≤ fuel →
      (∀ x ∈ seen, x ∈ closureLoop T fuel stack seen) ∧
      (∀ x ∈ closureLoop T fuel stack seen, ∀ y, EpsStep T x y → y ∈ closureLoop T fuel stack seen) := by
  intro fuel
  induction fuel with
  | zero =>
    intro stack seen hinv hcl hf
    have : stack = [] := List.eq_nil_of_length_eq_zero (by omega)
    subst this
    simp only [closureLoop]
    exact ⟨fun x hx => hx, fun x hx y hy => hcl x hx (by simp) y hy⟩
  | succ f ih =>
    intro stack seen hinv hcl hf
    cases stack with
    | nil =>
      simp only [closureLoop]
      exact ⟨fun x hx => hx, fun x hx y hy => hcl x hx (by simp) y hy⟩
    | cons s st =>
      have hinv0 : CInv T (seen, st) :=
        { nodup := hinv.nodup, bound := hinv.bound, sub := fun x hx => hinv.sub x (List.mem_cons_of_mem _ hx) }
      simp only [List.length_cons] at hf
      unfold closureLoop
      split
      · next a b hnode =>
        have ha : ∀ j, a = some j → j < T.length := fun j hj => hwf s _ hnode j (by simp [nodeOuts, hj])
        have hb : ∀ j, b = some j → j < T.length := fun j hj => hwf s _ hnode j (by simp [nodeOuts, hj])
        have i1 := pushNew_cinv hinv0 ha
        have i2 := pushNew_cinv i1 hb
        have m1 := pushNew_measure hinv0 ha
        have m2 := pushNew_measure i1 hb
        dsimp only at m1
        have hstep := ih (pushNew b (pushNew a (seen, st))).2 (pushNew b (pushNew a (seen, st))).1 i2 ?_ (by omega)
        · exact ⟨fun x hx => hstep.1 x (pushNew_seen_mono (pushNew_seen_mono hx)), hstep.2⟩
        · intro x hx hxs y hy
          by_cases hxs' : x = s
          · subst hxs'
            obtain ⟨a', b', hn', hor⟩ := hy
            rw [hnode] at hn'
            cases hn'
            rcases hor with h | h
            · exact pushNew_seen_mono (pushNew_target h)
            · exact pushNew_target h
          · by_cases hxseen : x ∈ seen
            · have hxst : x ∉ s :: st := by
                intro hh
                rcases List.mem_cons.1 hh with h | h
                · exact hxs' h
                · exact hxs (pushNew_stack_mono (pushNew_stack_mono h))
              exact pushNew_seen_mono (pushNew_seen_mono (hcl x hxseen hxst y hy))
            · exfalso
              apply hxs
              by_cases hx1 : x ∈ (pushNew a (seen, st)).1
              · exact pushNew_stack_mono (pushNew_new_on_stack hx1 hxseen)
              · exact pushNew_new_on_stack hx hx1
      · next hne =>
        refine ih st seen hinv0 ?_ (by omega)
        intro x hx hxs y hy
        by_cases hxs' : x = s
        · subst hxs'
          exfalso
          obtain ⟨a', b', hn', _⟩ := hy
          exact hne a' b' hn'
        · exact hcl x hx (by
            intro hh
            rcases List.mem_cons.1 hh with h | h
            · exact hxs' h
            · exact hxs h) y hy

theorem closure_complete (T : Tbl) (hwf : TblWF T) (i : Nat) (hi : i < T.length) {n q : Nat}
    (hp : PathN T n i [] q) : q ∈ closure T i := by
  have h := closureLoop_complete T hwf (T.length + 1) [i] [i]
    { nodup := by simp, bound := by intro x hx; simp at hx; omega, sub := fun x hx => hx }
    (by intro x hx hxs; exact absurd hx hxs) (by simp; omega)
  have hi' : i ∈ closure T i := h.1 i (by simp)
  -- closed under ε-steps, hence contains every ε-reachable state
  have : ∀ (n i' q : Nat) (w : List Sym), PathN T n i' w q → w = [] → i' ∈ closure T i → q ∈ closure T i := by
    intro n i' q w hp
    induction hp with
    | refl => intro _ h'; exact h'
    | eps hs _ ih => intro hw h'; exact ih hw (h.2 _ h' _ hs)
    | mtch _ _ _ => intro hw; cases hw
  exact this n i q [] hp rfl hi'


/-- a state set closed under ε-steps -/
def SClosed (T : Tbl) (S : List Nat) : Prop := ∀ x ∈ S, ∀ y, EpsStep T x y → y ∈ S

theorem closure_closed (T : Tbl) (hwf : TblWF T) (i : Nat) (hi : i < T.length) :
    i ∈ closure T i ∧ SClosed T (closure T i) := by
  have h := closureLoop_complete T hwf (T.length + 1) [i] [i]
    { nodup := by simp, bound := by intro x hx; simp at hx; omega, sub := fun x hx => hx }
    (by intro x hx hxs; exact absurd hx hxs) (by simp; omega)
  exact ⟨h.1 i (by simp), h.2⟩

theorem SClosed.path {T : Tbl} {S : List Nat} (h : SClosed T S) {n i j : Nat} (hp : PathN T n i [] j) (hi : i ∈ S) : j ∈ S := by
  have : ∀ (n i j : Nat) (w : List Sym), PathN T n i w j → w = [] → i ∈ S → j ∈ S := by
    intro n i j w hp
    induction hp with
    | refl => intro _ h'; exact h'
    | eps hs _ ih => intro hw h'; exact ih hw (h _ h' _ hs)
    | mtch _ _ _ => intro hw; cases hw
  exact this n i j [] hp rfl hi

/-- the first symbol of a path's word is read by a match state reached through ε-steps -/
theorem path_cons_split {T : Tbl} : ∀ {n i e : Nat} {w' : List Sym}, PathN T n i w' e → ∀ (a : Sym) (w : List Sym), w' = a :: w →
    ∃ j o n1 n2, PathN T n1 i [] j ∧ T[j]? = some (Node.mtch a o) ∧ PathN T n2 o w e := by
  intro n i e w' hp
  induction hp with
  | refl => intro a w h; cases h
  | eps hs _ ih =>
    intro a w h
    obtain ⟨j, o, n1, n2, p1, hn, p2⟩ := ih a w h
    exact ⟨j, o, n1 + 1, n2, PathN.eps hs p1, hn, p2⟩
  | mtch hs hrest _ =>
    intro a w h
    cases h
    exact ⟨_, _, 0, _, PathN.refl _, hs, hrest⟩

theorem mem_matchOuts_of {T : Tbl} {states : List Nat} {i : Nat} {a : Sym} {o : Nat} (hi : i ∈ states)
    (hn : T[i]? = some (Node.mtch a o)) : (a, o) ∈ matchOuts T states := by
  unfold matchOuts
  exact List.mem_filterMap.2 ⟨i, hi, by simp [hn]⟩

end Cep
