/-
C17 helper lemmas, part 3: whole runs — the model's trace satisfies the trace specification at
every null-safe point; a group's deliveries do not depend on the rows of other groups.
-/
import SsqlVerif.Proofs.Global
set_option autoImplicit false

namespace Global
open Spec

variable {α κ φ ε ν : Type}

/-! ### null-safety of a trace (decidable hypothesis `H` of the `_partial` theorems) -/

/-- every evaluation point of the observed trace is null-safe -/
def safeFrom [DecidableEq κ] [DecidableEq φ] [Num ν] (q : Query α φ ν) :
    List (Row κ φ ν × Bool) → List (Row κ φ ν) → List (Option (Result κ ν)) → Bool
  | hist, r :: rows, o :: outs =>
    pointSafe q.pred (openSeg r.key hist ++ [r]) && safeFrom q ((r, o.isSome) :: hist) rows outs
  | _, _, _ => true

/-- `H`: along the engine's own run over `rows`, whenever the predicate is evaluated either every
aggregate it mentions is non-NULL or the predicate is a conjunction without `!=` -/
def NullSafe [DecidableEq κ] [DecidableEq φ] [DecidableEq ε] [Num ν] (enc : κ → ε) (q : Query α φ ν)
    (rows : List (Row κ φ ν)) : Bool :=
  safeFrom q [] rows (run enc q rows)

theorem valsEq_refl (eqv : ν → ν → Bool) (hrefl : ∀ x, eqv x x = true) (l : List (Option ν)) :
    valsEq eqv l l = true := by
  induction l with
  | nil => rfl
  | cons a l ih => cases a <;> simp [valsEq, optEq, ih, hrefl]

theorem resultVerdict_self [DecidableEq κ] (eqv : ν → ν → Bool) (hrefl : ∀ x, eqv x x = true) (b : Bool)
    (res : Result κ ν) : resultVerdict eqv b res res = .ok := by
  simp [resultVerdict, valsEq_refl eqv hrefl]

theorem checkFrom_runFrom [DecidableEq κ] [DecidableEq φ] [DecidableEq ε] [Num ν] (eqv : ν → ν → Bool)
    (hrefl : ∀ x, eqv x x = true) (b : Bool) (enc : κ → ε) (q : Query α φ ν) (K : List κ) (hK : InjOn enc K)
    (rows : List (Row κ φ ν)) (hrows : ∀ r ∈ rows, r.key ∈ K) (i : Nat)
    (st : State ε κ ν) (hist : List (Row κ φ ν × Bool)) (hinv : Inv enc q K st hist)
    (hsafe : safeFrom q hist rows (runFrom enc q st rows) = true) :
    checkFrom eqv b q i hist rows (runFrom enc q st rows) = none := by
  induction rows generalizing st hist i with
  | nil => simp [checkFrom]
  | cons r rs ih =>
    have hr : r.key ∈ K := hrows r (by simp)
    simp only [runFrom, safeFrom, Bool.and_eq_true] at hsafe
    have hout := step_out enc q K st hist r hinv hr
    have hsql := engineTrue_eq_predTrue q.pred (openSeg r.key hist ++ [r]) hsafe.1
    have hv : stepVerdict eqv b q (openSeg r.key hist ++ [r]) r (step enc q st r).2 = .ok := by
      rw [hout, hsql]
      cases hp : predTrue q.pred (openSeg r.key hist ++ [r]) <;>
        simp [stepVerdict, hp, resultVerdict_self eqv hrefl]
    simp only [runFrom, checkFrom, hv, if_true]
    exact ih (fun x hx => hrows x (by simp [hx])) (i + 1) _ _ (step_inv enc q K hK st hist r hinv hr) hsafe.2

/-! ### isolation: a group's deliveries depend on the rows of that group only -/

/-- the deliveries at the rows of group `k` -/
def proj [DecidableEq κ] (k : κ) : List (Row κ φ ν) → List (Option (Result κ ν)) → List (Option (Result κ ν))
  | r :: rows, o :: outs => if r.key = k then o :: proj k rows outs else proj k rows outs
  | _, _ => []

theorem step_other [DecidableEq φ] [DecidableEq ε] [Num ν] (enc : κ → ε) (q : Query α φ ν)
    (st : State ε κ ν) (r : Row κ φ ν) (e : ε) (h : e ≠ enc r.key) :
    (step enc q st r).1 e = st e := by
  simp only [step]
  split <;> simp [State.erase, State.set, h]

theorem step_same [DecidableEq φ] [DecidableEq ε] [Num ν] (enc : κ → ε) (q : Query α φ ν)
    (st₁ st₂ : State ε κ ν) (r : Row κ φ ν) (h : st₁ (enc r.key) = st₂ (enc r.key)) :
    (step enc q st₁ r).2 = (step enc q st₂ r).2 ∧
    (step enc q st₁ r).1 (enc r.key) = (step enc q st₂ r).1 (enc r.key) := by
  simp only [step, h]
  split <;> simp [State.erase, State.set]

theorem proj_runFrom [DecidableEq κ] [DecidableEq φ] [DecidableEq ε] [Num ν] (enc : κ → ε) (q : Query α φ ν)
    (K : List κ) (hK : InjOn enc K) (k : κ) (hk : k ∈ K) (rows : List (Row κ φ ν))
    (hrows : ∀ r ∈ rows, r.key ∈ K) (st₁ st₂ : State ε κ ν) (h : st₁ (enc k) = st₂ (enc k)) :
    proj k rows (runFrom enc q st₁ rows) = runFrom enc q st₂ (rows.filter fun r => r.key = k) := by
  induction rows generalizing st₁ st₂ with
  | nil => simp [proj, runFrom]
  | cons r rs ih =>
    have hr : r.key ∈ K := hrows r (by simp)
    have hrs : ∀ x ∈ rs, x.key ∈ K := fun x hx => hrows x (by simp [hx])
    by_cases hkr : r.key = k
    · subst hkr
      have hs := step_same enc q st₁ st₂ r h
      simp only [runFrom, proj, List.filter_cons, if_true, decide_true, hs.1]
      rw [ih hrs _ _ hs.2]
    · have henc : enc k ≠ enc r.key := fun he => hkr (hK k hk r.key hr he).symm
      simp only [runFrom, proj, List.filter_cons, hkr, if_false, decide_false]
      exact ih hrs _ _ (by rw [step_other enc q st₁ r (enc k) henc, h])

/-! ### the trace specification leaves no slack: it determines the deliveries -/

theorem valsEq_decide_eq [DecidableEq ν] (a b : List (Option ν))
    (h : valsEq (fun x y => decide (x = y)) a b = true) : a = b := by
  induction a generalizing b with
  | nil => cases b <;> simp_all [valsEq]
  | cons x xs ih =>
    cases b with
    | nil => simp [valsEq] at h
    | cons y ys =>
      simp only [valsEq, Bool.and_eq_true] at h
      have hxy : x = y := by
        cases x <;> cases y <;> simp_all [optEq]
      rw [hxy, ih ys h.2]

theorem resultVerdict_ok_eq [DecidableEq κ] [DecidableEq ν] (want got : Result κ ν)
    (h : resultVerdict (fun x y => decide (x = y)) true want got = .ok) : got = want := by
  simp only [resultVerdict] at h
  split at h
  · cases h
  · rename_i hk
    split at h
    · cases h
    · rename_i hv
      split at h
      · cases h
      · rename_i hb
        have hk' : got.key = want.key := by simpa using hk
        have hv' := valsEq_decide_eq got.vals want.vals (by simpa using hv)
        simp only [Bool.true_and, Bool.or_eq_true, decide_eq_true_eq, not_or, ne_eq, Decidable.not_not] at hb
        cases got; cases want; simp_all

theorem stepVerdict_ok_unique [DecidableEq κ] [DecidableEq φ] [DecidableEq ν] [Num ν] (q : Query α φ ν)
    (seg : List (Row κ φ ν)) (r : Row κ φ ν) (o₁ o₂ : Option (Result κ ν))
    (h₁ : stepVerdict (fun x y => decide (x = y)) true q seg r o₁ = .ok)
    (h₂ : stepVerdict (fun x y => decide (x = y)) true q seg r o₂ = .ok) : o₁ = o₂ := by
  cases hp : predTrue q.pred seg <;> cases o₁ <;> cases o₂ <;> simp_all [stepVerdict]
  rename_i a b
  rw [resultVerdict_ok_eq _ _ h₁, resultVerdict_ok_eq _ _ h₂]

theorem checkFrom_unique [DecidableEq κ] [DecidableEq φ] [DecidableEq ν] [Num ν] (q : Query α φ ν)
    (rows : List (Row κ φ ν)) (i : Nat) (hist : List (Row κ φ ν × Bool)) (outs₁ outs₂ : List (Option (Result κ ν)))
    (hl₁ : outs₁.length = rows.length) (hl₂ : outs₂.length = rows.length)
    (h₁ : checkFrom (fun x y => decide (x = y)) true q i hist rows outs₁ = none)
    (h₂ : checkFrom (fun x y => decide (x = y)) true q i hist rows outs₂ = none) : outs₁ = outs₂ := by
  induction rows generalizing i hist outs₁ outs₂ with
  | nil =>
    cases outs₁ <;> cases outs₂ <;> simp_all
  | cons r rs ih =>
    cases outs₁ with
    | nil => simp at hl₁
    | cons o₁ t₁ =>
      cases outs₂ with
      | nil => simp at hl₂
      | cons o₂ t₂ =>
        simp only [checkFrom] at h₁ h₂
        split at h₁
        · rename_i hv₁
          split at h₂
          · rename_i hv₂
            have ho := stepVerdict_ok_unique q _ r o₁ o₂ hv₁ hv₂
            subst ho
            rw [ih (i + 1) _ t₁ t₂ (by simpa using hl₁) (by simpa using hl₂) h₁ h₂]
          · cases h₂
        · cases h₁

end Global
