/-
C17 helper lemmas, part 3: whole runs — the model's trace satisfies the trace specification at
every null-safe point; a group's deliveries do not depend on the rows of other groups.
-/
import SsqlVerif.Proofs.Global
set_option autoImplicit false

namespace Global
open Spec

variable {α κ φ ε ν : Type}

/-! ### null-safety of a trace (decidable hypothesis `H` of the `_partial` theorems) -/

/-- every evaluation point of the observed trace is null-safe -/
def safeFrom [DecidableEq κ] [DecidableEq φ] [Num ν] (q : Query α φ ν) :
    List (Row κ φ ν × Bool) → List (Row κ φ ν) → List (Option (Result κ ν)) → Bool
  | hist, r :: rows, o :: outs =>
    pointSafe q.pred (openSeg r.key hist ++ [r]) && safeFrom q ((r, o.isSome) :: hist) rows outs
  | _, _, _ => true

/-- `H`: along the engine's own run over `rows`, whenever the predicate is evaluated either every
aggregate it mentions is non-NULL or the predicate is a conjunction without `!=` -/
def NullSafe [DecidableEq κ] [DecidableEq φ] [DecidableEq ε] [Num ν] (enc : κ → ε) (q : Query α φ ν)
    (rows : List (Row κ φ ν)) : Bool :=
  safeFrom q [] rows (run enc q rows)

theorem valsEq_refl (eqv : ν → ν → Bool) (hrefl : ∀ x, eqv x x = true) (l : List (Option ν)) :
    valsEq eqv l l = true := by
  induction l with
  | nil => rfl
  | cons a l ih => cases a <;> simp [valsEq, optEq, ih, hrefl]

theorem resultVerdict_self [DecidableEq κ] (eqv : ν → ν → Bool) (hrefl : ∀ x, eqv x x = true) (b : Bool)
    (res : Result κ ν) : resultVerdict eqv b res res = .ok := by
  simp [resultVerdict, valsEq_refl eqv hrefl]

theorem checkFrom_runFrom [DecidableEq κ] [DecidableEq φ] [DecidableEq ε] [Num ν] (eqv : ν → ν → Bool)
    (hrefl : ∀ x, eqv x x = true) (b : Bool) (enc : κ → ε) (q : Query α φ ν) (K : List κ) (hK : InjOn enc K)
    (rows : List (Row κ φ ν)) (hrows : ∀ r ∈ rows, r.key ∈ K) (i : Nat)
    (st : State ε κ ν) (hist : List (Row κ φ ν × Bool)) (hinv : Inv enc q K st hist)
    (hsafe : safeFrom q hist rows (runFrom enc q st rows) = true) :
    checkFrom eqv b q i hist rows (runFrom enc q st rows) = none := by
  induction rows generalizing st hist i with
  | nil => simp [checkFrom]
  | cons r rs ih =>
    have hr : r.key ∈ K := hrows r (by simp)
    simp only [runFrom, safeFrom, Bool.and_eq_true] at hsafe
    have hout := step_out enc q K st hist r hinv hr
    have hsql := engineTrue_eq_predTrue q.pred (openSeg r.key hist ++ [r]) hsafe.1
    have hv : stepVerdict eqv b q (openSeg r.key hist ++ [r]) r (step enc q st r).2 = .ok := by
      rw [hout, hsql]
      cases hp : predTrue q.pred (openSeg r.key hist ++ [r]) <;>
        simp [stepVerdict, hp, resultVerdict_self eqv hrefl]
    simp only [runFrom, checkFrom, hv, if_true]
    exact ih (fun x hx => hrows x (by simp [hx])) (i + 1) _ _ (step_inv enc q K hK st hist r hinv hr) hsafe.2

/-! ### isolation: a group's deliveries depend on the rows of that group only -/

/-- the deliveries at the rows of group `k` -/
def proj [DecidableEq κ] (k : κ) : List (Row κ φ ν) → List (Option (Result κ ν)) → List (Option (Result κ ν))
  | r :: rows, o :: outs => if r.key = k then o :: proj k rows outs else proj k rows outs
  | _, _ => []

theorem step_other [DecidableEq φ] [DecidableEq ε] [Num ν] (enc : κ → ε) (q : Query α φ ν)
    (st : State ε κ ν) (r : Row κ φ ν) (e : ε) (h : e ≠ enc r.key) :
    (step enc q st r).1 e = st e := by
  simp only [step]
  split <;> simp [State.erase, State.set, h]

theorem step_same [DecidableEq φ] [DecidableEq ε] [Num ν] (enc : κ → ε) (q : Query α φ ν)
    (st₁ st₂ : State ε κ ν) (r : Row κ φ ν) (h : st₁ (enc r.key) = st₂ (enc r.key)) :
    (step enc q st₁ r).2 = (step enc q st₂ r).2 ∧
    (step enc q st₁ r).1 (enc r.key) = (step enc q st₂ r).1 (enc r.key) := by
  simp only [step, h]
  split <;> simp [State.erase, State.set]

theorem proj_runFrom [DecidableEq κ] [DecidableEq φ] [DecidableEq ε] [Num ν] (enc : κ → ε) (q : Query α φ ν)
    (K : List κ) (hK : InjOn enc K) (k : κ) (hk : k ∈ K) (rows : List (Row κ φ ν))
    (hrows : ∀ r ∈ rows, r.key ∈ K) (st₁ st₂ : State ε κ ν) (h : st₁ (enc k) = st₂ (enc k)) :
    proj k rows (runFrom enc q st₁ rows) = runFrom enc q st₂ (rows.filter fun r => r.key = k) := by
  induction rows generalizing st₁ st₂ with
  | nil => simp [proj, runFrom]
  | cons r rs ih =>
    have hr : r.key ∈ K := hrows r (by simp)
    have hrs : ∀ x ∈ rs, x.key ∈ K := fun x hx => hrows x (by simp [hx])
    by_cases hkr : r.key = k
    · subst hkr
      have hs := step_same enc q st₁ st₂ r h
      simp only [runFrom, proj, List.filter_cons, if_true, decide_true, hs.1]
      rw [ih hrs _ _ hs.2]
    · have henc : enc k ≠ enc r.key := fun he => hkr (hK k hk r.key hr he).symm
      simp only [runFrom, proj, List.filter_cons, hkr, if_false, decide_false]
      exact ih hrs _ _ (by rw [step_other enc q st₁ r (enc k) henc, h])

end Global
