/-
Helper lemmas for C14 at the level of a query field: the engine instance the model runs (keys =
encoded partition strings, machine = all calls of the field + wrapper) computes
`Spec.fieldFn` over the typed-key partitions.  Core Lean only.
-/
import SsqlVerif.Proofs.AnalyticEngine
import SsqlVerif.Proofs.AnalyticKey
import SsqlVerif.Model.AnalyticQuery
import SsqlVerif.Spec.AnalyticQuery
set_option autoImplicit false
set_option linter.unusedSectionVars false
set_option linter.unusedSimpArgs false
set_option linter.unusedVariables false

namespace Analytic
open Spec

section rekey
variable {K K' α β : Type} [DecidableEq K] [DecidableEq K']

def reKey (g : K → K') (r : FRow K α) : FRow K' α := { key := g r.key, live := r.live, arg := r.arg }

theorem partRows_reKey (g : K → K') (hg : ∀ a b, g a = g b → a = b) (k : K) (rows : List (FRow K α)) :
    partRows (g k) (rows.map (reKey g)) = (partRows k rows).map (reKey g) := by
  induction rows with
  | nil => rfl
  | cons r rs ih =>
    unfold partRows at ih ⊢
    by_cases h : r.key = k
    · simp [List.filter_cons, reKey, h, ih]
    · have h' : ¬ g r.key = g k := fun e => h (hg _ _ e)
      simp [List.filter_cons, reKey, h, h', ih]

theorem liveArgs_reKey (g : K → K') (rows : List (FRow K α)) :
    liveArgs (rows.map (reKey g)) = liveArgs rows := by
  induction rows with
  | nil => rfl
  | cons r rs ih =>
    unfold liveArgs at ih ⊢
    by_cases h : r.live = true <;> simp [List.filter_cons, reKey, h, ih]

theorem gated_reKey (f : List α → α → β) (g : K → K') (earlier : List (FRow K α)) (r : FRow K α) :
    gated f (earlier.map (reKey g)) (reKey g r) = gated f earlier r := by
  unfold gated
  rw [liveArgs_reKey]
  rfl

/-- the specification only looks at key equality: an injective re-encoding of the keys changes nothing -/
theorem fieldSpecFrom_reKey (f : List α → α → β) (g : K → K') (hg : ∀ a b, g a = g b → a = b) :
    ∀ (rows hist : List (FRow K α)),
      fieldSpecFrom f (hist.map (reKey g)) (rows.map (reKey g)) = fieldSpecFrom f hist rows := by
  intro rows
  induction rows with
  | nil => intro hist; rfl
  | cons r rs ih =>
    intro hist
    have := ih (hist ++ [r])
    simp only [List.map_append, List.map_cons, List.map_nil] at this
    show gated f (partRows (reKey g r).key (hist.map (reKey g))) (reKey g r) ::
        fieldSpecFrom f (hist.map (reKey g) ++ [reKey g r]) (rs.map (reKey g)) = _
    rw [this]
    show gated f (partRows (g r.key) (hist.map (reKey g))) (reKey g r) :: _ = _
    rw [partRows_reKey g hg, gated_reKey]
    rfl

theorem mem_map_inj (g : K → K') (hg : ∀ a b, g a = g b → a = b) (x : K) (l : List K) :
    g x ∈ l.map g ↔ x ∈ l := by
  constructor
  · intro h
    obtain ⟨y, hy, hxy⟩ := List.mem_map.1 h
    rw [← hg _ _ hxy]; exact hy
  · intro h; exact List.mem_map.2 ⟨x, h, rfl⟩

theorem distinct_map_length (g : K → K') (hg : ∀ a b, g a = g b → a = b) (l : List K) :
    (distinct (l.map g)).length = (distinct l).length := by
  induction l with
  | nil => rfl
  | cons x xs ih =>
    simp only [List.map_cons, distinct]
    by_cases hx : x ∈ xs
    · rw [if_pos hx, if_pos ((mem_map_inj g hg x xs).2 hx), ih]
    · rw [if_neg hx, if_neg (fun h => hx ((mem_map_inj g hg x xs).1 h))]
      simp [ih]

theorem liveKeys_reKey (g : K → K') (rows : List (FRow K α)) :
    liveKeys (rows.map (reKey g)) = (liveKeys rows).map g := by
  induction rows with
  | nil => rfl
  | cons r rs ih =>
    unfold liveKeys at ih ⊢
    by_cases h : r.live = true <;> simp [List.filter_cons, reKey, h, ih]

theorem withinCap_reKey (cap : Nat) (g : K → K') (hg : ∀ a b, g a = g b → a = b) (rows : List (FRow K α)) :
    withinCap cap (rows.map (reKey g)) = withinCap cap rows := by
  unfold withinCap
  rw [liveKeys_reKey, distinct_map_length g hg]

end rekey

section congr
variable {K α β : Type} [DecidableEq K]

theorem mem_liveArgs_partRows (k : K) (rows : List (FRow K α)) (x : α) (hx : x ∈ liveArgs (partRows k rows)) :
    ∃ r ∈ rows, r.arg = x := by
  unfold liveArgs partRows at hx
  obtain ⟨r, hr, rfl⟩ := List.mem_map.1 hx
  exact ⟨r, (List.mem_filter.1 (List.mem_filter.1 hr).1).1, rfl⟩

/-- two definitions that agree on well-formed histories give the same field values -/
theorem fieldSpecFrom_congr (W : α → Prop) (f g : List α → α → β)
    (hfg : ∀ h a, (∀ x ∈ h, W x) → W a → f h a = g h a) :
    ∀ (rows hist : List (FRow K α)), (∀ r ∈ hist, W r.arg) → (∀ r ∈ rows, W r.arg) →
      fieldSpecFrom f hist rows = fieldSpecFrom g hist rows := by
  intro rows
  induction rows with
  | nil => intro hist _ _; rfl
  | cons r rs ih =>
    intro hist hh hr
    have hW : ∀ x ∈ liveArgs (partRows r.key hist), W x := by
      intro x hx
      obtain ⟨r', hr', rfl⟩ := mem_liveArgs_partRows r.key hist x hx
      exact hh r' hr'
    have hgated : gated f (partRows r.key hist) r = gated g (partRows r.key hist) r := by
      unfold gated
      by_cases hl : r.live = true
      · rw [if_pos hl, if_pos hl, hfg _ _ hW (hr r (by simp))]
      · rw [if_neg hl, if_neg hl]
        cases hrev : (liveArgs (partRows r.key hist)).reverse with
        | nil => rfl
        | cons a before =>
          simp only
          have hmem : ∀ x, x ∈ a :: before → W x := by
            intro x hx
            have : x ∈ (liveArgs (partRows r.key hist)).reverse := by rw [hrev]; exact hx
            exact hW x (by simpa using this)
          rw [hfg before.reverse a (fun x hx => hmem x (by simp at hx; simp [hx])) (hmem a (by simp))]
    show gated f _ r :: fieldSpecFrom f (hist ++ [r]) rs = gated g _ r :: fieldSpecFrom g (hist ++ [r]) rs
    rw [hgated, ih (hist ++ [r])
      (fun x hx => by
        rcases List.mem_append.1 hx with hx | hx
        · exact hh x hx
        · simp at hx; rw [hx]; exact hr r (by simp))
      (fun x hx => hr x (by simp [hx]))]

end congr

section compose
variable {ν : Type} [NumOps ν]

/-- state of a call after the rows `hist` of its partition -/
def callStateOf (c : Call ν) (hist : List (Row ν)) : CallSt ν :=
  match c with
  | .lag col off d ign =>
    .lag ((lagMachine (lagK off) (ign.getD true)).run (lagMachine (lagK off) (ign.getD true)).init (hist.map (lagIn col d)))
  | .latest col d => .latest (latestMachine.run latestMachine.init (hist.map (lagIn col d)))
  | .hadChanged ign cols =>
    .hc ((hadChangedMachine ign).run (hadChangedMachine ign).init (hist.map (fun h => cols.map h.val)))
  | .changedCol ign col =>
    .chg ((changedColMachine ign).run (changedColMachine ign).init (hist.map (fun h => h.val col)))
  | .changedCols ign cols =>
    .cols ((changedColsMachine ign).run (changedColsMachine ign).init (hist.map (fun h => cols.map h.val)))
  | .acc kind col start reset =>
    .acc ((accMachine kind start.isSome reset.isSome).run (accMachine kind start.isSome reset.isSome).init
      (hist.map (accIn col start reset)))

theorem callInit_eq (c : Call ν) : callInit c = callStateOf c [] := by
  cases c <;> rfl

theorem lagK_pos (off : Option Int) : 1 ≤ lagK off := by
  cases off with
  | none => simp [lagK]
  | some n => exact effOffset_pos n

theorem step_fst_run {σ α β : Type} (m : Machine σ α β) (xs : List α) (a : α) :
    (m.step (m.run m.init xs) a).1 = m.run m.init (xs ++ [a]) := (m.run_snoc m.init xs a).symm

/-- one call on one more row: the state follows the history, the value is the definition -/
theorem callStep_stateOf (c : Call ν) (hist : List (Row ν)) (r : Row ν) :
    callStep c (callStateOf c hist) r = (callStateOf c (hist ++ [r]), callFn c hist r) := by
  cases c with
  | lag col off d ign =>
    simp only [callStep, callStateOf, callFn, List.map_append, List.map_cons, List.map_nil]
    rw [step_fst_run, ← lag_out (lagK off) (lagK_pos off)]
    rfl
  | latest col d =>
    simp only [callStep, callStateOf, callFn, List.map_append, List.map_cons, List.map_nil]
    rw [step_fst_run, ← latest_out]
    rfl
  | hadChanged ign cols =>
    simp only [callStep, callStateOf, callFn, List.map_append, List.map_cons, List.map_nil]
    rw [step_fst_run, ← hadChanged_out ign cols.length _ _ (by simp) (by simp)]
    rfl
  | changedCol ign col =>
    simp only [callStep, callStateOf, callFn, List.map_append, List.map_cons, List.map_nil]
    rw [step_fst_run, ← changedCol_out]
    rfl
  | changedCols ign cols =>
    simp only [callStep, callStateOf, callFn, List.map_append, List.map_cons, List.map_nil]
    rw [step_fst_run, ← changedCols_out ign cols.length _ _ (by simp) (by simp)]
    rfl
  | acc kind col start reset =>
    simp only [callStep, callStateOf, callFn, List.map_append, List.map_cons, List.map_nil]
    rw [step_fst_run, ← acc_out]
    rfl

theorem callsStep_stateOf (calls : List (Call ν)) (hist : List (Row ν)) (r : Row ν) :
    callsStep calls (calls.map (fun c => callStateOf c hist)) r =
      (calls.map (fun c => callStateOf c (hist ++ [r])), calls.map (fun c => callFn c hist r)) := by
  induction calls with
  | nil => rfl
  | cons c cs ih =>
    simp only [List.map_cons, callsStep, callStep_stateOf, ih]

theorem fieldMachine_state (f : Field ν) (hist : List (Row ν)) :
    (fieldMachine f).run (fieldMachine f).init hist = f.calls.map (fun c => callStateOf c hist) := by
  refine Machine.run_inv_init (fieldMachine f) (fun _ => True)
    (fun s h => s = f.calls.map (fun c => callStateOf c h)) ?_ ?_ hist (fun _ _ => trivial)
  · show f.calls.map callInit = _
    exact List.map_congr_left (fun c _ => callInit_eq c)
  · intro s h a _ hs
    subst hs
    show (callsStep f.calls _ a).1 = _
    rw [callsStep_stateOf]

/-- a field's machine (all calls, then the wrapper) computes the field's definition -/
theorem fieldMachine_out (f : Field ν) (hist : List (Row ν)) (r : Row ν) :
    (fieldMachine f).out hist r = fieldFn f hist r := by
  unfold Machine.out
  rw [fieldMachine_state]
  show applyWrap f.wrap r (callsStep f.calls _ r).2 = _
  rw [callsStep_stateOf]
  rfl

/-- the rows as the model's engine sees them: encoded partition key, WHEN, the row -/
def modelRows (f : Field ν) (rows : List (Row ν)) : List (FRow (List Char) (Row ν)) :=
  rows.map (fun r => { key := fieldKey f r, live := fieldLive f r, arg := r })

theorem modelRows_eq (f : Field ν) (rows : List (Row ν)) :
    modelRows f rows = (fieldRows f rows).map (reKey partitionKey) := by
  simp [modelRows, fieldRows, reKey, fieldKey]

/-- end to end for one field: LRU engine over encoded keys with the field's state machines
= the definitions over the typed-key partitions, while the live partitions fit the cap -/
theorem field_engine_eq_spec (cap : Nat) (f : Field ν) (rows : List (Row ν))
    (hcap : withinCap cap (fieldRows f rows) = true) :
    engRun cap (fieldMachine f) (Eng.empty : FEng ν) (modelRows f rows) =
      fieldSpec (fieldFn f) (fieldRows f rows) := by
  rw [modelRows_eq]
  rw [engRun_eq_fieldSpec cap (fieldMachine f) _
    (by rw [withinCap_reKey cap partitionKey partitionKey_inj]; exact hcap)]
  unfold fieldSpec
  have h1 := fieldSpecFrom_reKey (fieldMachine f).out partitionKey partitionKey_inj (fieldRows f rows) []
  simp only [List.map_nil] at h1
  rw [h1]
  exact fieldSpecFrom_congr (fun _ => True) _ _ (fun h a _ _ => fieldMachine_out f h a) _ []
    (fun _ _ => trivial) (fun _ _ => trivial)

end compose
section capflags
variable {ν : Type} [NumOps ν]

theorem nodup_distinct {K : Type} [DecidableEq K] (l : List K) : (distinct l).Nodup := by
  induction l with
  | nil => simp [distinct]
  | cons x xs ih =>
    unfold distinct
    by_cases hx : x ∈ xs
    · rw [if_pos hx]; exact ih
    · rw [if_neg hx]
      exact List.nodup_cons.2 ⟨fun h => hx ((mem_distinct x xs).1 h), ih⟩

theorem length_eq_distinct {K : Type} [DecidableEq K] (keys l : List K) (hnd : keys.Nodup)
    (hmem : ∀ k, k ∈ keys ↔ k ∈ l) : keys.length = (distinct l).length := by
  apply Nat.le_antisymm
  · exact List.Nodup.length_le_of_subset hnd (fun k hk => (mem_distinct k l).2 ((hmem k).1 hk))
  · exact List.Nodup.length_le_of_subset (nodup_distinct l) (fun k hk => (hmem k).2 ((mem_distinct k l).1 hk))

def capStep (cap : Nat) (acc : List (List KVal) × List Bool) (r : FRow (List KVal) (Row ν)) :
    List (List KVal) × List Bool :=
  ((if r.live && !acc.1.contains r.key then r.key :: acc.1 else acc.1),
   decide ((if r.live && !acc.1.contains r.key then r.key :: acc.1 else acc.1).length ≤ cap) :: acc.2)

theorem capFlags_fold (cap : Nat) (rows : List (FRow (List KVal) (Row ν))) :
    capFlags cap rows = (rows.foldl (capStep cap) ([], [])).2.reverse := rfl

theorem liveKeys_snoc {K α : Type} (pre : List (FRow K α)) (r : FRow K α) :
    liveKeys (pre ++ [r]) = if r.live then liveKeys pre ++ [r.key] else liveKeys pre := by
  unfold liveKeys
  by_cases h : r.live = true <;> simp [List.filter_append, h]

theorem capFold_spec (cap : Nat) :
    ∀ (rows pre : List (FRow (List KVal) (Row ν))) (keys : List (List KVal)) (flags : List Bool),
      keys.Nodup → (∀ k, k ∈ keys ↔ k ∈ liveKeys pre) →
      (rows.foldl (capStep cap) (keys, flags)).2.reverse = flags.reverse ++ prefixFlags cap pre rows := by
  intro rows
  induction rows with
  | nil => intro pre keys flags _ _; simp [prefixFlags]
  | cons r rs ih =>
    intro pre keys flags hnd hmem
    simp only [List.foldl_cons]
    have hnd' : (if r.live && !keys.contains r.key then r.key :: keys else keys).Nodup := by
      by_cases hc : (r.live && !keys.contains r.key) = true
      · rw [if_pos hc]
        have : r.key ∉ keys := by
          simp at hc; exact hc.2
        exact List.nodup_cons.2 ⟨this, hnd⟩
      · rw [if_neg hc]; exact hnd
    have hmem' : ∀ k, k ∈ (if r.live && !keys.contains r.key then r.key :: keys else keys) ↔
        k ∈ liveKeys (pre ++ [r]) := by
      intro k
      rw [liveKeys_snoc]
      by_cases hl : r.live = true
      · rw [if_pos hl]
        by_cases hk : keys.contains r.key = true
        · have hk' : r.key ∈ keys := by simpa using hk
          simp only [hl, hk, Bool.not_true, Bool.and_false, Bool.false_eq_true, if_false]
          rw [hmem k, List.mem_append]
          constructor
          · intro h; exact Or.inl h
          · intro h
            rcases h with h | h
            · exact h
            · simp at h; rw [h]; exact (hmem r.key).1 hk'
        · have hk' : keys.contains r.key = false := by simpa using hk
          simp only [hl, hk', Bool.not_false, Bool.and_true, if_true]
          rw [List.mem_cons, List.mem_append, hmem k]
          simp [or_comm]
      · have hl' : r.live = false := by simpa using hl
        simp [hl', hmem k]
    have := ih (pre ++ [r]) _ (decide ((if r.live && !keys.contains r.key then r.key :: keys else keys).length ≤ cap) :: flags) hnd' hmem'
    have hstep : capStep cap (keys, flags) r =
        ((if r.live && !keys.contains r.key then r.key :: keys else keys),
         decide ((if r.live && !keys.contains r.key then r.key :: keys else keys).length ≤ cap) :: flags) := rfl
    rw [hstep, this]
    simp only [List.reverse_cons, List.append_assoc, List.singleton_append, prefixFlags]
    congr 2
    unfold withinCap
    rw [length_eq_distinct _ _ hnd' hmem']

/-- the oracle's incremental cap flags are the theorems' `withinCap` of every prefix -/
theorem capFlags_eq (cap : Nat) (rows : List (FRow (List KVal) (Row ν))) :
    capFlags cap rows = prefixFlags cap [] rows := by
  rw [capFlags_fold]
  have := capFold_spec cap rows [] [] [] (by simp) (by simp [liveKeys])
  simpa using this


end capflags
section columns
variable {ν : Type} [NumOps ν]

theorem evalAll_length (cap : Nat) : ∀ (fs : List (Field ν)) (es : List (FEng ν)) (r : Row ν),
    fs.length = es.length → (evalAll cap fs es r).1.length = es.length ∧ (evalAll cap fs es r).2.length = es.length := by
  intro fs
  induction fs with
  | nil => intro es r h; cases es <;> simp_all [evalAll]
  | cons f fs ih =>
    intro es r h
    cases es with
    | nil => simp at h
    | cons e es =>
      have := ih es r (by simpa using h)
      simp [evalAll, this]

/-- field `i` of `AnalyticEngine.Evaluate` only depends on engine `i` -/
theorem evalAll_get (cap : Nat) : ∀ (fs : List (Field ν)) (es : List (FEng ν)) (r : Row ν) (i : Nat)
    (f : Field ν) (e : FEng ν), fs[i]? = some f → es[i]? = some e →
    (evalAll cap fs es r).1[i]? = some (fieldEval cap f e r).1 ∧
    (evalAll cap fs es r).2[i]? = some (fieldEval cap f e r).2 := by
  intro fs
  induction fs with
  | nil => intro es r i f e hf; simp at hf
  | cons f0 fs ih =>
    intro es r i f e hf he
    cases es with
    | nil => simp at he
    | cons e0 es =>
      cases i with
      | zero =>
        simp at hf he
        subst hf; subst he
        simp [evalAll]
      | succ i =>
        simp at hf he
        have := ih es r i f e hf he
        simpa [evalAll] using this

/-- the fields of a query do not interfere: column `i` of the analytic results over any row
sequence is the run of field `i`'s own engine -/
theorem machine_column (cap : Nat) (fs : List (Field ν)) (init0 : List (FEng ν)) (i : Nat) (f : Field ν)
    (hf : fs[i]? = some f) :
    ∀ (rows : List (Row ν)) (es : List (FEng ν)) (e : FEng ν), es[i]? = some e → fs.length = es.length →
      ((({ init := init0, step := evalAll cap fs } : Machine (List (FEng ν)) (Row ν) (List (Option (COut ν)))).outs es rows).map
        (fun o => o.getD i none)) = engRun cap (fieldMachine f) e (modelRows f rows) := by
  intro rows
  induction rows with
  | nil => intro es e _ _; rfl
  | cons r rs ih =>
    intro es e he hlen
    obtain ⟨h1, h2⟩ := evalAll_get cap fs es r i f e hf he
    have hl := (evalAll_length cap fs es r hlen).1
    have := ih (evalAll cap fs es r).1 (fieldEval cap f e r).1 h1 (by rw [hl]; exact hlen)
    simp only [Machine.outs, List.map_cons, modelRows, engRun] at this ⊢
    rw [this]
    congr 1
    simp [List.getD, h2, fieldEval]

/-- for a query: column `i` of `Query.machine` from the initial state = field `i` alone -/
theorem query_column (q : Query ν) (i : Nat) (f : Field ν) (hf : q.allFields[i]? = some f) (rows : List (Row ν)) :
    ((q.machine.outs q.machine.init rows).map (fun o => o.getD i none)) =
      engRun (effCap q.cap) (fieldMachine f) (Eng.empty : FEng ν) (modelRows f rows) := by
  have hi : i < q.allFields.length := by
    rcases Nat.lt_or_ge i q.allFields.length with h | h
    · exact h
    · rw [List.getElem?_eq_none h] at hf; simp at hf
  exact machine_column (effCap q.cap) q.allFields _ i f hf rows _ Eng.empty
    (by simp [Query.machine, hi]) (by simp [Query.machine])


end columns
end Analytic
