/-
Helper lemmas for C02 on the tumbling model with ALLOWEDLATENESS ≥ 0: first firings never precede
the watermark; a late update re-delivers exactly the previous contents of its interval plus the
late row.  Core Lean only.
-/
import SsqlVerif.Proofs.TumblingInv
set_option autoImplicit false
set_option linter.unusedVariables false
set_option linter.unusedSimpArgs false

namespace Tumbling
open Wm

/-- rows of the most recent delivery (first firing or late update) for the interval starting at `st` -/
def lastFor (st : Int) : List Emission → Option (List Row)
  | [] => none
  | e :: es => match lastFor st es with
    | some r => some r
    | none => if e.start = st then some e.rows else none

theorem lastFor_append_singleton (st : Int) (es : List Emission) (e : Emission) :
    lastFor st (es ++ [e]) = if e.start = st then some e.rows else lastFor st es := by
  induction es with
  | nil => simp [lastFor]
  | cons a es ih =>
    simp only [List.cons_append, lastFor, ih]
    by_cases h : e.start = st
    · simp [h]
    · simp [h]

structure GoodF (s : TW) (es : List Emission) : Prop where
  hshape : ∀ e ∈ es, e.stop = e.start + s.size
  hbefore : ∀ c, s.cur = some c → ∀ e ∈ es, e.start + s.size ≤ c
  hadv : ∀ c, s.cur = some c → leOpt c s.wm.cur ∨ es = []
  hnone : s.cur = none → es = [] ∧ s.fired = []
  hfired : ∀ c, s.cur = some c → ∀ f ∈ s.fired, f.start + s.size ≤ c
  hdistinct : s.fired.Pairwise (fun a b => a.start ≠ b.start)
  /-- the snapshot of an open triggered window is what was last delivered for its interval -/
  hsnap : ∀ f ∈ s.fired, lastFor f.start es = some f.snap

theorem goodF_init (size ooo lateness : Int) : GoodF (init size ooo lateness) [] :=
  { hshape := by intro e h; cases h
    hbefore := by intro c h; cases h
    hadv := by intro c h; cases h
    hnone := fun _ => ⟨rfl, rfl⟩
    hfired := by intro c h; cases h
    hdistinct := List.Pairwise.nil
    hsnap := by intro f h; cases h }

/-- no buffered row lies in the interval of an open triggered window -/
theorem data_not_in_fired (s : TW) (es : List Emission) (hg : Good s) (hf : GoodF s es)
    (f : Fired) (hfm : f ∈ s.fired) (x : Row) (hx : x ∈ s.data) : inSlot s.size f.start x = false := by
  cases hc : s.cur with
  | none => rw [(hf.hnone hc).2] at hfm; cases hfm
  | some c =>
    have h1 := hf.hfired c hc f hfm
    have h2 := hg.hdata c hc x hx
    simp only [inSlot, Bool.and_eq_false_iff, decide_eq_false_iff_not]
    right; omega

theorem findFired_mem (s : TW) (r : Row) (now : Int) (f : Fired) (h : findFired s r now = some f) :
    f ∈ s.fired ∧ inSlot s.size f.start r = true ∧ stillOpen (wmAfter s r now).cur f = true := by
  unfold findFired at h
  have h1 := List.mem_of_find?_eq_some h
  have h2 := List.find?_some h
  simp only [Bool.and_eq_true] at h2
  exact ⟨h1, h2.1, h2.2⟩

theorem fate_lateUpdate (s : TW) (r : Row) (now : Int) (f : Fired) (h : fate s r now = .lateUpdate f) :
    lateNow s r now = true ∧ 0 < s.lateness ∧ findFired s r now = some f := by
  unfold fate at h
  split at h
  · rename_i hl
    split at h
    · cases h
    · split at h
      · rename_i hlat
        split at h
        · rename_i g hg; cases h; exact ⟨hl, hlat, hg⟩
        · cases h
      · cases h
  · cases h

/-- **the late update**: same interval, previous contents plus the late row, inside the allowance -/
theorem late_update_step (s : TW) (es : List Emission) (r : Row) (now : Int) (hg : Good s) (hf : GoodF s es)
    (f : Fired) (h : fate s r now = .lateUpdate f) :
    (stepAdd s r now).2 = [{ kind := .late, start := f.start, stop := f.start + s.size, rows := f.snap ++ [r] }] ∧
    lastFor f.start es = some f.snap ∧ inSlot s.size f.start r = true ∧ lateNow s r now = true ∧
    stillOpen (wmAfter s r now).cur f = true := by
  obtain ⟨hl, _, hff⟩ := fate_lateUpdate s r now f h
  obtain ⟨hmem, hin, hopen⟩ := findFired_mem s r now f hff
  refine ⟨?_, hf.hsnap f hmem, hin, hl, hopen⟩
  simp only [stepAdd, addEmit, h, lateRows]
  have : (s.data ++ [r]).filter (inSlot s.size f.start) = [r] := by
    rw [List.filter_append]
    have h0 : s.data.filter (inSlot s.size f.start) = [] := by
      apply List.filter_eq_nil_iff.mpr
      intro x hx
      rw [data_not_in_fired s es hg hf f hmem x hx]; simp
    rw [h0]; simp [hin]
  rw [this]

theorem firedAfter_mem (s : TW) (c : Int) (f : Fired) (h : f ∈ firedAfter s c) :
    f ∈ s.fired ∨ (0 < s.lateness ∧ f = { start := c, close := c + s.size + s.lateness, snap := slotRows s c }) := by
  unfold firedAfter at h
  split at h
  · rename_i hl
    simp only [List.mem_append, List.mem_singleton] at h
    rcases h with h | h
    · exact Or.inl h
    · exact Or.inr ⟨hl, h⟩
  · exact Or.inl h

theorem goodF_fireOrSkip (s : TW) (c w : Int) (es : List Emission) (hg : Good s) (hh : GoodF s es)
    (hcur : s.cur = some c) (htr : s.trigW = some w) (hw : c + s.size ≤ w) :
    GoodF (fireOrSkip s c).1 (es ++ (fireOrSkip s c).2) := by
  have hsz := hg.hsize
  have hadv' : leOpt (c + s.size) s.wm.cur := by
    obtain ⟨y, hy, hwy⟩ := hg.htrig w htr
    exact ⟨y, hy, by omega⟩
  unfold fireOrSkip
  split
  · rw [List.append_nil]
    exact
      { hshape := hh.hshape
        hbefore := by
          intro c' hc' e he; cases hc'
          have := hh.hbefore c hcur e he
          show e.start + s.size ≤ c + s.size; omega
        hadv := by intro c' hc'; cases hc'; exact Or.inl hadv'
        hnone := by intro h; cases h
        hfired := by
          intro c' hc' f hf; cases hc'
          have := hh.hfired c hcur f hf
          show f.start + s.size ≤ c + s.size; omega
        hdistinct := hh.hdistinct
        hsnap := hh.hsnap }
  · exact
      { hshape := by
          intro e he
          simp only [List.mem_append, List.mem_singleton] at he
          rcases he with he | he
          · exact hh.hshape e he
          · rw [he]
        hbefore := by
          intro c' hc' e he; cases hc'
          show e.start + s.size ≤ c + s.size
          simp only [List.mem_append, List.mem_singleton] at he
          rcases he with he | he
          · have := hh.hbefore c hcur e he; omega
          · rw [he]; exact Int.le_refl _
        hadv := by intro c' hc'; cases hc'; exact Or.inl hadv'
        hnone := by intro h; cases h
        hfired := by
          intro c' hc' f hf; cases hc'
          show f.start + s.size ≤ c + s.size
          rcases firedAfter_mem s c f hf with h | ⟨_, h⟩
          · have := hh.hfired c hcur f h; omega
          · rw [h]; exact Int.le_refl _
        hdistinct := by
          show (firedAfter s c).Pairwise _
          unfold firedAfter
          split
          · rw [List.pairwise_append]
            refine ⟨hh.hdistinct, List.pairwise_singleton _ _, ?_⟩
            intro a ha b hb
            simp only [List.mem_singleton] at hb
            rw [hb]
            have := hh.hfired c hcur a ha
            show a.start ≠ c
            omega
          · exact hh.hdistinct
        hsnap := by
          intro f hf
          rw [lastFor_append_singleton]
          show (if c = f.start then _ else _) = _
          rcases firedAfter_mem s c f hf with h | ⟨_, h⟩
          · have := hh.hfired c hcur f h
            have hne : ¬ c = f.start := by omega
            rw [if_neg hne]; exact hh.hsnap f h
          · rw [h]; simp }

theorem goodF_closeExpired (s : TW) (w : Int) (es : List Emission) (hh : GoodF s es) :
    GoodF (closeExpired s w) es :=
  { hshape := hh.hshape
    hbefore := hh.hbefore
    hadv := hh.hadv
    hnone := by
      intro h
      have := hh.hnone h
      exact ⟨this.1, by simp [closeExpired, this.2]⟩
    hfired := by
      intro c hc f hf
      simp only [closeExpired, List.mem_filter] at hf
      exact hh.hfired c hc f hf.1
    hdistinct := List.Pairwise.filter _ hh.hdistinct
    hsnap := by
      intro f hf
      simp only [closeExpired, List.mem_filter] at hf
      exact hh.hsnap f hf.1 }

theorem goodF_iter (s : TW) (es : List Emission) (hg : Good s) (hh : GoodF s es) :
    GoodF (stepIter s).1 (es ++ (stepIter s).2) := by
  unfold stepIter
  split
  · rename_i w c htr hcur
    split
    · rename_i hw; exact goodF_fireOrSkip s c w es hg hh hcur htr hw
    · rw [List.append_nil]; exact goodF_closeExpired s w es hh
  · rw [List.append_nil]
    exact
      { hshape := hh.hshape, hbefore := hh.hbefore, hadv := hh.hadv, hnone := hh.hnone, hfired := hh.hfired
        hdistinct := hh.hdistinct, hsnap := hh.hsnap }
  · rw [List.append_nil]; exact hh

end Tumbling

namespace Tumbling
open Wm

theorem fired_nil_of_es_nil (s : TW) (hh : GoodF s []) : s.fired = [] := by
  cases hf : s.fired with
  | nil => rfl
  | cons f fs =>
    have := hh.hsnap f (by rw [hf]; simp)
    simp [lastFor] at this

theorem late_no_reseat (s : TW) (r : Row) (now : Int) (hl : lateNow s r now = true) :
    curAfterAdd s r now = curInit s r := by
  unfold curAfterAdd; rw [if_pos hl]

theorem fate_drop_late (s : TW) (r : Row) (now : Int) (h : fate s r now = .drop) : lateNow s r now = true := by
  unfold fate at h
  split at h
  · assumption
  · cases h

theorem updFired_mem (s : TW) (f : Fired) (r : Row) (g : Fired) (hg : g ∈ updFired s f r) :
    ∃ g0 ∈ s.fired, g.start = g0.start ∧
      ((g0.start = f.start ∧ g.snap = lateRows s f r) ∨ (g0.start ≠ f.start ∧ g = g0)) := by
  simp only [updFired, List.mem_map] at hg
  obtain ⟨g0, hg0, rfl⟩ := hg
  refine ⟨g0, hg0, ?_, ?_⟩
  · split <;> rfl
  · by_cases h : g0.start = f.start
    · left; exact ⟨h, by simp [h]⟩
    · right; exact ⟨h, by simp [h]⟩

theorem goodF_add (s : TW) (r : Row) (now : Int) (es : List Emission) (hg : Good s) (hh : GoodF s es)
    (ht : 0 ≤ r.ts) : GoodF (stepAdd s r now).1 (es ++ (stepAdd s r now).2) := by
  have hmono : ∀ x, leOpt x s.wm.cur → leOpt x (wmAfter s r now).cur :=
    fun x hx => updateEventTime_cur _ _ _ _ hx
  have hcur' : (stepAdd s r now).1.cur = some (curAfterAdd s r now) := rfl
  cases hfate : fate s r now with
  | lateUpdate f =>
    obtain ⟨hl, _, hff⟩ := fate_lateUpdate s r now f hfate
    obtain ⟨hmem, hin, _⟩ := findFired_mem s r now f hff
    have hca := late_no_reseat s r now hl
    have hem : (stepAdd s r now).2 = [{ kind := .late, start := f.start, stop := f.start + s.size, rows := lateRows s f r }] := by
      simp [stepAdd, addEmit, hfate]
    have hfd : (stepAdd s r now).1.fired = updFired s f r := by simp [stepAdd, addFired, hfate]
    rw [hem]
    cases hc0 : s.cur with
    | none => rw [(hh.hnone hc0).2] at hmem; cases hmem
    | some c0 =>
      have hci : curAfterAdd s r now = c0 := by rw [hca]; simp [curInit, hc0]
      have hfb := hh.hfired c0 hc0 f hmem
      exact
        { hshape := by
            intro e he
            simp only [List.mem_append, List.mem_singleton] at he
            rcases he with he | he
            · exact hh.hshape e he
            · rw [he]; rfl
          hbefore := by
            intro c hc e he
            rw [hcur', hci] at hc; cases hc
            simp only [List.mem_append, List.mem_singleton] at he
            rcases he with he | he
            · exact hh.hbefore c0 hc0 e he
            · rw [he]; exact hfb
          hadv := by
            intro c hc
            rw [hcur', hci] at hc; cases hc
            rcases hh.hadv c0 hc0 with h | h
            · exact Or.inl (hmono c0 h)
            · subst h
              rw [fired_nil_of_es_nil s hh] at hmem; cases hmem
          hnone := by intro h; rw [hcur'] at h; cases h
          hfired := by
            intro c hc g hgm
            rw [hcur', hci] at hc; cases hc
            rw [hfd] at hgm
            obtain ⟨g0, hg0, hst, _⟩ := updFired_mem s f r g hgm
            rw [hst]; exact hh.hfired c0 hc0 g0 hg0
          hdistinct := by
            rw [hfd]
            simp only [updFired]
            rw [List.pairwise_map]
            apply List.Pairwise.imp _ hh.hdistinct
            intro a b hab
            split <;> split <;> exact hab
          hsnap := by
            intro g hgm
            rw [hfd] at hgm
            obtain ⟨g0, hg0, hst, hcase⟩ := updFired_mem s f r g hgm
            rw [lastFor_append_singleton]
            show (if f.start = g.start then some (lateRows s f r) else lastFor g.start es) = some g.snap
            rcases hcase with ⟨h1, h2⟩ | ⟨h1, h2⟩
            · rw [if_pos (by rw [hst, h1]), h2]
            · rw [if_neg (by rw [hst]; exact fun h => h1 h.symm), h2]
              exact hh.hsnap g0 hg0 }
  | keep =>
    have hem : (stepAdd s r now).2 = [] := by simp [stepAdd, addEmit, hfate]
    have hfd : (stepAdd s r now).1.fired = s.fired := by simp [stepAdd, addFired, hfate]
    rw [hem, List.append_nil]
    -- slot unchanged, or re-seated with nothing delivered so far
    have hcases : (∃ c0, s.cur = some c0 ∧ curAfterAdd s r now = c0) ∨ es = [] := by
      cases hc0 : s.cur with
      | none => exact Or.inr (hh.hnone hc0).1
      | some c0 =>
        have hci : curInit s r = c0 := by simp [curInit, hc0]
        unfold curAfterAdd
        split
        · exact Or.inl ⟨c0, rfl, hci⟩
        · rename_i hlate
          split
          · rename_i hlt
            rcases hh.hadv c0 hc0 with hle | hnil
            · exfalso
              have := not_late_ge (wmAfter s r now) r.ts c0 (by simpa [lateNow] using hlate) (hmono c0 hle)
              omega
            · exact Or.inr hnil
          · exact Or.inl ⟨c0, rfl, hci⟩
    rcases hcases with ⟨c0, hc0, hsame⟩ | hnil
    · exact
        { hshape := hh.hshape
          hbefore := by intro c hc e he; rw [hcur', hsame] at hc; cases hc; exact hh.hbefore c0 hc0 e he
          hadv := by
            intro c hc; rw [hcur', hsame] at hc; cases hc
            rcases hh.hadv c0 hc0 with h | h
            · exact Or.inl (hmono c0 h)
            · exact Or.inr h
          hnone := by intro h; rw [hcur'] at h; cases h
          hfired := by intro c hc f hf; rw [hcur', hsame] at hc; cases hc; rw [hfd] at hf; exact hh.hfired c0 hc0 f hf
          hdistinct := by rw [hfd]; exact hh.hdistinct
          hsnap := by intro f hf; rw [hfd] at hf; exact hh.hsnap f hf }
    · subst hnil
      have hfn := fired_nil_of_es_nil s hh
      exact
        { hshape := by intro e he; cases he
          hbefore := by intro c hc e he; cases he
          hadv := fun c hc => Or.inr rfl
          hnone := by intro h; rw [hcur'] at h; cases h
          hfired := by intro c hc f hf; rw [hfd, hfn] at hf; cases hf
          hdistinct := by rw [hfd, hfn]; exact List.Pairwise.nil
          hsnap := by intro f hf; rw [hfd, hfn] at hf; cases hf }
  | drop =>
    have hl := fate_drop_late s r now hfate
    have hca := late_no_reseat s r now hl
    have hem : (stepAdd s r now).2 = [] := by simp [stepAdd, addEmit, hfate]
    have hfd : (stepAdd s r now).1.fired = s.fired := by simp [stepAdd, addFired, hfate]
    rw [hem, List.append_nil]
    cases hc0 : s.cur with
    | none =>
      have := hh.hnone hc0
      exact
        { hshape := by intro e he; rw [this.1] at he; cases he
          hbefore := by intro c hc e he; rw [this.1] at he; cases he
          hadv := fun c hc => Or.inr this.1
          hnone := by intro h; rw [hcur'] at h; cases h
          hfired := by intro c hc f hf; rw [hfd, this.2] at hf; cases hf
          hdistinct := by rw [hfd, this.2]; exact List.Pairwise.nil
          hsnap := by intro f hf; rw [hfd, this.2] at hf; cases hf }
    | some c0 =>
      have hci : curAfterAdd s r now = c0 := by rw [hca]; simp [curInit, hc0]
      exact
        { hshape := hh.hshape
          hbefore := by intro c hc e he; rw [hcur', hci] at hc; cases hc; exact hh.hbefore c0 hc0 e he
          hadv := by
            intro c hc; rw [hcur', hci] at hc; cases hc
            rcases hh.hadv c0 hc0 with h | h
            · exact Or.inl (hmono c0 h)
            · exact Or.inr h
          hnone := by intro h; rw [hcur'] at h; cases h
          hfired := by intro c hc f hf; rw [hcur', hci] at hc; cases hc; rw [hfd] at hf; exact hh.hfired c0 hc0 f hf
          hdistinct := by rw [hfd]; exact hh.hdistinct
          hsnap := by intro f hf; rw [hfd] at hf; exact hh.hsnap f hf }

theorem goodF_step (s : TW) (op : Op) (es : List Emission) (hg : Good s) (hh : GoodF s es)
    (hok : OpOk op) : GoodF (step s op).1 (es ++ (step s op).2) := by
  cases op with
  | add r now => exact goodF_add s r now es hg hh hok
  | addNoTs => simpa [step] using hh
  | tick idle now =>
    simp only [step, List.append_nil]
    exact
      { hshape := hh.hshape, hbefore := hh.hbefore
        hadv := by
          intro c hc
          rcases hh.hadv c hc with h | h
          · exact Or.inl (tick_cur _ _ _ _ h)
          · exact Or.inr h
        hnone := hh.hnone, hfired := hh.hfired, hdistinct := hh.hdistinct, hsnap := hh.hsnap }
  | pop =>
    simp only [step, List.append_nil]
    unfold stepPop
    split
    · rename_i w wm' htr hp
      obtain ⟨_, hcur, _⟩ := pop_mem _ _ _ hp
      exact
        { hshape := hh.hshape, hbefore := hh.hbefore
          hadv := by intro c hc; rw [hcur]; exact hh.hadv c hc
          hnone := hh.hnone, hfired := hh.hfired, hdistinct := hh.hdistinct, hsnap := hh.hsnap }
    · exact hh
  | iter => exact goodF_iter s es hg hh

theorem goodF_run (s : TW) (ops : List Op) (es : List Emission) (hg : Good s) (hh : GoodF s es)
    (hok : ∀ op ∈ ops, OpOk op) : GoodF (run s ops).1 (es ++ (run s ops).2) := by
  induction ops generalizing s es with
  | nil => simpa [run] using hh
  | cons op ops ih =>
    simp only [run]
    have hok1 := hok op (by simp)
    have := ih (step s op).1 (es ++ (step s op).2) (good_step s op hg hok1)
      (goodF_step s op es hg hh hok1) (fun o ho => hok o (by simp [ho]))
    rwa [List.append_assoc] at this

/-- nothing is delivered before the watermark has passed the interval's end -/
theorem no_early (s : TW) (es : List Emission) (hh : GoodF s es) :
    ∀ e ∈ es, leOpt e.stop s.wm.cur := by
  intro e he
  cases hc : s.cur with
  | none => rw [(hh.hnone hc).1] at he; cases he
  | some c =>
    rcases hh.hadv c hc with ⟨y, hy, hcy⟩ | hnil
    · have h1 := hh.hbefore c hc e he
      have h2 := hh.hshape e he
      exact ⟨y, hy, by omega⟩
    · rw [hnil] at he; cases he

end Tumbling
