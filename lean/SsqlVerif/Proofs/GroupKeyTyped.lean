/-
Rendering of typed key values is injective inside one column type (helper lemmas for C04).
-/
import SsqlVerif.Proofs.GroupKey
import SsqlVerif.Spec.GroupBy
set_option autoImplicit false

namespace GroupKey
open GroupBy

theorem natStr_injective (a b : Nat) (h : natStr a = natStr b) : a = b := by
  have ha := Nat.ofDigitChars_toDigits (b := 10) (n := a) (by decide) (by decide)
  have hb := Nat.ofDigitChars_toDigits (b := 10) (n := b) (by decide) (by decide)
  unfold natStr at h
  rw [h] at ha
  exact ha.symm.trans hb

theorem natStr_no_minus (a : Nat) (r : Str) : natStr a ≠ '-' :: r := by
  intro h
  have := toDigits_isDigit a '-' (by unfold natStr at h; rw [h]; simp)
  exact absurd this (by decide)

theorem intStr_injective (a b : Int) (h : intStr a = intStr b) : a = b := by
  cases a with
  | ofNat m =>
    cases b with
    | ofNat n => simp only [intStr] at h; rw [natStr_injective m n h]
    | negSucc n => simp only [intStr] at h; exact absurd h (natStr_no_minus _ _)
  | negSucc m =>
    cases b with
    | ofNat n => simp only [intStr] at h; exact absurd h.symm (natStr_no_minus _ _)
    | negSucc n =>
      simp only [intStr, List.cons.injEq, true_and] at h
      have := natStr_injective _ _ h
      rw [Nat.add_right_cancel this]

theorem boolStr_injective (a b : Bool) (h : boolStr a = boolStr b) : a = b := by
  cases a <;> cases b <;> first | rfl | (exact absurd h (by decide))

theorem renderCast_injective (v w : Val) (ht : sameType v w = true) (hf : fltOk v w)
    (h : renderCast v = renderCast w) : v.norm = w.norm := by
  cases v <;> cases w <;> simp only [renderCast, Val.norm, sameType] at * <;>
    first
    | rfl
    | contradiction
    | (simp only [Option.some.injEq] at h; first
        | (simp only [fltOk] at hf; obtain ⟨h1, h2⟩ := hf
           have hb := h1.2 h; have hg := h2.1 hb; rw [hb, h, hg])
        | (rw [h])
        | (rw [intStr_injective _ _ h])
        | (rw [boolStr_injective _ _ h]))

theorem renderV_injective (v w : Val) (ht : sameType v w = true) (hf : fltOk v w)
    (h : renderV v = renderV w) : v.norm = w.norm := by
  cases v <;> cases w <;> simp only [renderV, Val.norm, sameType] at * <;>
    first
    | rfl
    | contradiction
    | (simp only [Option.some.injEq] at h; first
        | (simp only [fltOk] at hf; obtain ⟨h1, h2⟩ := hf
           have hb := h2.2 h; have hg := h1.1 hb; rw [hb, h, hg])
        | (rw [h])
        | (rw [intStr_injective _ _ h])
        | (rw [boolStr_injective _ _ h]))

theorem map_render_injective (f : Val → Option Str)
    (hfinj : ∀ v w, sameType v w = true → fltOk v w → f v = f w → v.norm = w.norm) :
    ∀ (t t' : List Val), sameTypeT t t' = true → fltOkT t t' → t.map f = t'.map f →
      normTuple t = normTuple t' := by
  intro t
  induction t with
  | nil => intro t' ht _ _; cases t' with
    | nil => rfl
    | cons w ws => simp [sameTypeT] at ht
  | cons v vs ih =>
    intro t' ht hf h
    cases t' with
    | nil => simp [sameTypeT] at ht
    | cons w ws =>
      simp only [sameTypeT, Bool.and_eq_true] at ht
      simp only [List.map_cons, List.cons.injEq] at h
      simp only [normTuple, List.map_cons, List.cons.injEq]
      exact ⟨hfinj v w ht.1 hf.1 h.1, ih ws ht.2 hf.2 h.2⟩

theorem sameTypeT_length : ∀ (t t' : List Val), sameTypeT t t' = true → t.length = t'.length := by
  intro t
  induction t with
  | nil => intro t' h; cases t' with
    | nil => rfl
    | cons w ws => simp [sameTypeT] at h
  | cons v vs ih => intro t' h; cases t' with
    | nil => simp [sameTypeT] at h
    | cons w ws =>
      simp only [sameTypeT, Bool.and_eq_true] at h
      simp [ih ws h.2]

/-- rendering respects the grouping equality (NULL = missing) -/
theorem renderCast_norm (v : Val) : renderCast v.norm = renderCast v := by cases v <;> rfl
theorem renderV_norm (v : Val) : renderV v.norm = renderV v := by cases v <;> rfl

end GroupKey
