/-
Helper lemmas for C02 (sessions, ALLOWEDLATENESS > 0): in every reachable state every session
delivered so far is still registered for late rows, or its allowance lies at or below the
watermark.  (Before /repo abc3247 the implementation — and the model that copied it — lost a
registration when a later session of the key fired under the same map key.)
Core Lean only.
-/
import SsqlVerif.Proofs.SessionRun
set_option autoImplicit false
set_option linter.unusedVariables false
set_option linter.unusedSimpArgs false

namespace Session
open Wm
open Tumbling (leOpt)

/-- `t` is the registration of the delivered session `e` -/
def RegFor (lat : Int) (e : Emission) (t : Trig) : Prop :=
  t.sess.key = e.key ∧ t.sess.start = e.start ∧ t.sess.stop = e.stop ∧ t.close = e.stop + lat

/-- every first delivery among `es` is registered in `w`, or its allowance is at or below the watermark -/
def Reg (w : SWin) (es : List Emission) : Prop :=
  ∀ e ∈ es, e.late = false →
    (∃ t ∈ w.trig, RegFor w.lateness e t) ∨ leOpt (e.stop + w.lateness) w.wm.cur

theorem step_lateness (w : SWin) (op : Op) : (step w op).1.lateness = w.lateness := by
  cases op with
  | add k r now => rfl
  | addNoTs => rfl
  | tick idle now => rfl
  | deliver =>
    simp only [step, stepDeliver]
    split
    · rfl
    · rfl

theorem run_lateness (w : SWin) (ops : List Op) : (run w ops).1.lateness = w.lateness := by
  induction ops generalizing w with
  | nil => rfl
  | cons op ops ih => simp only [run]; rw [ih, step_lateness]

/-- absorbing a late row keeps every registration (only the rows of one entry grow) -/
theorem absorb_keeps (w : SWin) (t0 : Trig) (r : Row) (lat : Int) (e : Emission)
    (h : ∃ t ∈ w.trig, RegFor lat e t) : ∃ t ∈ absorb w t0 r, RegFor lat e t := by
  obtain ⟨t, ht, hr⟩ := h
  unfold absorb
  by_cases heq : (t == t0) = true
  · refine ⟨{ t with sess := { t.sess with rows := t.sess.rows ++ [r] } }, ?_, hr⟩
    exact List.mem_map.mpr ⟨t, ht, by simp [heq]⟩
  · refine ⟨t, ?_, hr⟩
    exact List.mem_map.mpr ⟨t, ht, by simp [heq]⟩

theorem addTrig_keeps (w : SWin) (k : Key) (r : Row) (now : Int) (lat : Int) (e : Emission)
    (h : ∃ t ∈ w.trig, RegFor lat e t) : ∃ t ∈ addTrig w k r now, RegFor lat e t := by
  unfold addTrig
  split
  · exact absorb_keeps w _ r lat e h
  · exact h

/-- the emissions of an Add are late updates -/
theorem add_emits_late (w : SWin) (k : Key) (r : Row) (now : Int) :
    ∀ e ∈ (stepAdd w k r now).2, e.late = true := by
  intro e he
  have : (stepAdd w k r now).2 = addEmit w k r now := rfl
  rw [this] at he
  unfold addEmit at he
  split at he
  · simp only [List.mem_singleton] at he; rw [he]
  · cases he

theorem putTrig_foldl (l : List Trig) (ex : List Sess) (lat : Int) :
    ex.foldl (fun acc s => putTrig acc { sess := s, close := s.stop + lat }) l
      = l ++ ex.map (fun s => { sess := s, close := s.stop + lat }) := by
  induction ex generalizing l with
  | nil => simp
  | cons s ss ih => rw [List.foldl_cons, ih]; simp [putTrig]

theorem reg_expire (w : SWin) (x : Int) (es : List Emission) (hl : 0 < w.lateness)
    (hx : leOpt x w.wm.cur) (h : Reg w es) : Reg (stepExpire w x).1 (es ++ (stepExpire w x).2) := by
  intro e he hlate
  have hlat : (stepExpire w x).1.lateness = w.lateness := rfl
  have hcur : (stepExpire w x).1.wm.cur = w.wm.cur := rfl
  rw [hlat, hcur]
  have htrig : (stepExpire w x).1.trig =
      (w.trig ++ (sortSess (w.sessions.filter (expiredBy w x))).map
        (fun s => ({ sess := s, close := s.stop + w.lateness } : Trig))).filter (fun t => !decide (t.close ≤ x)) := by
    simp only [stepExpire, hl, if_true, putTrig_foldl]
  have below : ∀ c : Int, c ≤ x → leOpt c w.wm.cur := by
    intro c hc
    obtain ⟨y, hy, hxy⟩ := hx
    exact ⟨y, hy, by omega⟩
  rcases List.mem_append.mp he with he | he
  · rcases h e he hlate with ⟨t, ht, hr⟩ | hb
    · by_cases hc : t.close ≤ x
      · right
        have := below t.close hc
        rw [hr.2.2.2] at this
        exact this
      · left
        refine ⟨t, ?_, hr⟩
        rw [htrig]
        exact List.mem_filter.mpr ⟨List.mem_append.mpr (Or.inl ht), by simp; omega⟩
    · exact Or.inr hb
  · simp only [stepExpire, List.mem_map] at he
    obtain ⟨s, hs, rfl⟩ := he
    by_cases hc : s.stop + w.lateness ≤ x
    · exact Or.inr (below _ hc)
    · left
      refine ⟨{ sess := s, close := s.stop + w.lateness }, ?_, rfl, rfl, rfl, rfl⟩
      rw [htrig]
      exact List.mem_filter.mpr ⟨List.mem_append.mpr (Or.inr (List.mem_map.mpr ⟨s, hs, rfl⟩)), by simp; omega⟩

theorem reg_step (w : SWin) (op : Op) (es : List Emission) (hi : Inv w) (hl : 0 < w.lateness) (h : Reg w es) :
    Reg (step w op).1 (es ++ (step w op).2) := by
  cases op with
  | add k r now =>
    intro e he hlate
    rcases List.mem_append.mp he with he | he
    · rcases h e he hlate with hreg | hb
      · exact Or.inl (addTrig_keeps w k r now w.lateness e hreg)
      · exact Or.inr (leOpt_mono_step w (.add k r now) _ hb)
    · have := add_emits_late w k r now e he
      rw [this] at hlate; cases hlate
  | addNoTs =>
    intro e he hlate
    simp only [step, List.append_nil] at he ⊢
    exact h e he hlate
  | tick idle now =>
    intro e he hlate
    simp only [step, List.append_nil] at he
    rcases h e he hlate with hreg | hb
    · exact Or.inl hreg
    · exact Or.inr (leOpt_mono_step w (.tick idle now) _ hb)
  | deliver =>
    simp only [step, stepDeliver]
    split
    · simpa using h
    · rename_i x wm' hp
      obtain ⟨hmem, hcur, hsub⟩ := Tumbling.pop_mem _ _ _ hp
      have hx : leOpt x ({ w with wm := wm' } : SWin).wm.cur := by
        show leOpt x wm'.cur
        rw [hcur]; exact hi.hchan x hmem
      have h' : Reg ({ w with wm := wm' } : SWin) es := by
        intro e he hlate
        rcases h e he hlate with hreg | hb
        · exact Or.inl hreg
        · right; show leOpt _ wm'.cur; rw [hcur]; exact hb
      exact reg_expire _ x es hl hx h'

theorem reg_run (w : SWin) (ops : List Op) (es : List Emission) (hi : Inv w) (hl : 0 < w.lateness) (h : Reg w es) :
    Reg (run w ops).1 (es ++ (run w ops).2) := by
  induction ops generalizing w es with
  | nil => simpa [run] using h
  | cons op ops ih =>
    simp only [run]
    have hl' : 0 < (step w op).1.lateness := by rw [step_lateness]; exact hl
    have := ih (step w op).1 (es ++ (step w op).2) (inv_step w op hi) hl' (reg_step w op es hi hl h)
    simpa [List.append_assoc] using this

end Session
