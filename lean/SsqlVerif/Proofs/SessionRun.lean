/-
Helper lemmas for C10/C02: run-level invariants of the session state machine.  Core Lean only.
-/
import SsqlVerif.Proofs.Session
import SsqlVerif.Proofs.TumblingInv
set_option autoImplicit false
set_option linter.unusedVariables false
set_option linter.unusedSimpArgs false

namespace Session
open Wm
open Tumbling (leOpt)

/-- gap clause without sorting: every row except an earliest one has a strictly earlier row of
the same session within the timeout (equivalent to: consecutive sorted timestamps differ by at
most the timeout) -/
def Chain (timeout start : Int) (rows : List Row) : Prop :=
  ∀ r ∈ rows, r.ts = start ∨ ∃ r' ∈ rows, r'.ts < r.ts ∧ r.ts - r'.ts ≤ timeout

theorem chain_new (k : Key) (r : Row) (timeout : Int) : Chain timeout (newSess k r timeout).start (newSess k r timeout).rows := by
  intro x hx; simp [newSess] at hx; subst hx; exact Or.inl rfl

/-- in a well-shaped chained session every instant above the start and below the end has a row
strictly before it within the timeout -/
theorem exists_pred (timeout : Int) (s : Sess) (hok : SessOk timeout s) (hc : Chain timeout s.start s.rows)
    (t : Int) (h1 : s.start < t) (h2 : t < s.stop) :
    ∃ r' ∈ s.rows, r'.ts < t ∧ t - r'.ts ≤ timeout := by
  by_cases hbig : s.lastActive < t
  · obtain ⟨m, hm, hmt⟩ := hok.hmax
    exact ⟨m, hm, by omega, by have := hok.hstop; omega⟩
  · -- some row is at or above t: walk down the chain
    have key : ∀ n : Nat, ∀ x ∈ s.rows, t ≤ x.ts → (x.ts - t).toNat = n →
        ∃ r' ∈ s.rows, r'.ts < t ∧ t - r'.ts ≤ timeout := by
      intro n
      induction n using Nat.strongRecOn with
      | _ n ih =>
        intro x hx hxt hn
        rcases hc x hx with hst | ⟨p, hp, hpl, hpd⟩
        · omega
        · by_cases hpt : p.ts < t
          · exact ⟨p, hp, hpt, by omega⟩
          · exact ih (p.ts - t).toNat (by omega) p hp (by omega) rfl
    obtain ⟨m, hm, hmt⟩ := hok.hmax
    exact key _ m hm (by omega) rfl

theorem chain_extend (s : Sess) (r : Row) (timeout : Int) (hok : SessOk timeout s)
    (hc : Chain timeout s.start s.rows) (hlow : s.start < r.ts + timeout) (hhigh : r.ts < s.stop) :
    Chain timeout (extend s r timeout).start (extend s r timeout).rows := by
  intro x hx
  simp only [extend, List.mem_append, List.mem_singleton] at hx ⊢
  by_cases hmin : r.ts < s.start
  · simp only [hmin, if_true]
    rcases hx with hx | hx
    · rcases hc x hx with hst | ⟨p, hp, hpl, hpd⟩
      · right; exact ⟨r, Or.inr rfl, by omega, by omega⟩
      · right; exact ⟨p, Or.inl hp, hpl, hpd⟩
    · left; rw [hx]
  · simp only [hmin, if_false]
    rcases hx with hx | hx
    · rcases hc x hx with hst | ⟨p, hp, hpl, hpd⟩
      · exact Or.inl hst
      · exact Or.inr ⟨p, Or.inl hp, hpl, hpd⟩
    · subst hx
      by_cases heq : x.ts = s.start
      · exact Or.inl heq
      · obtain ⟨p, hp, hpl, hpd⟩ := exists_pred timeout s hok hc x.ts (by omega) hhigh
        exact Or.inr ⟨p, Or.inl hp, hpl, hpd⟩

/-- hypothesis H of the partial theorem, on one op in a state: an on-time row that joins its key's
open session is not a full timeout or more below that session's start -/
def gapOk (w : SWin) (r : Row) : Fate → Prop
  | .extendHead h => h.start < r.ts + w.timeout
  | _ => True

instance (w : SWin) (r : Row) (f : Fate) : Decidable (gapOk w r f) := by
  cases f <;> simp only [gapOk] <;> infer_instance

def NoAcrossGap (w : SWin) : Op → Prop
  | .add k r now => gapOk w r (fate w k r now)
  | _ => True

instance (w : SWin) (op : Op) : Decidable (NoAcrossGap w op) := by
  cases op <;> simp only [NoAcrossGap] <;> infer_instance

def NoAcrossGapAll (w : SWin) : List Op → Prop
  | [] => True
  | op :: ops => NoAcrossGap w op ∧ NoAcrossGapAll (step w op).1 ops

def decNoAcrossGapAll : (w : SWin) → (ops : List Op) → Decidable (NoAcrossGapAll w ops)
  | _, [] => isTrue trivial
  | w, op :: ops => @instDecidableAnd _ _ _ (decNoAcrossGapAll (step w op).1 ops)

instance (w : SWin) (ops : List Op) : Decidable (NoAcrossGapAll w ops) := decNoAcrossGapAll w ops

def AllChain (w : SWin) : Prop := ∀ s ∈ w.sessions, Chain w.timeout s.start s.rows

theorem fate_extend_high (w : SWin) (k : Key) (r : Row) (now : Int) (h : Sess) (hf : fate w k r now = .extendHead h) :
    r.ts < h.stop := by
  unfold fate at hf
  split at hf
  · split at hf
    · unfold lateFate at hf; split at hf <;> cases hf
    · cases hf
  · unfold onTimeFate at hf
    split at hf
    · cases hf
    · unfold headFate at hf
      split at hf
      · cases hf
      · rename_i hns; cases hf; omega

theorem head?_mem (w : SWin) (k : Key) (h : Sess) (hh : head? w k = some h) : h ∈ w.sessions ∧ isHead k h = true := by
  unfold head? at hh
  exact ⟨List.mem_of_find?_eq_some hh, List.find?_some hh⟩

theorem allChain_add (w : SWin) (k : Key) (r : Row) (now : Int) (hok : AllOk w) (hu : HeadsUnique w)
    (hc : AllChain w) (hH : NoAcrossGap w (.add k r now)) : AllChain (stepAdd w k r now).1 := by
  intro s hs
  have hs' : s ∈ addSessions w k r now := hs
  show Chain w.timeout s.start s.rows
  unfold addSessions at hs'
  split at hs'
  · simp only [List.mem_append, List.mem_singleton] at hs'
    rcases hs' with hs' | hs'
    · exact hc s hs'
    · subst hs'; exact chain_new k r w.timeout
  · simp only [List.mem_append, List.mem_singleton] at hs'
    rcases hs' with hs' | hs'
    · rcases replaceHead_mem _ _ _ _ hs' with ⟨h1, _⟩ | ⟨y, hy, _, rfl⟩
      · exact hc s h1
      · exact hc y hy
    · subst hs'; exact chain_new k r w.timeout
  · rename_i hd hf
    rcases replaceHead_mem _ _ _ _ hs' with ⟨h1, _⟩ | ⟨y, hy, hyh, rfl⟩
    · exact hc s h1
    · -- y is the head, and the head is unique
      have hhd := head?_mem w k hd (fate_extend_head w k r now hd hf)
      have hflt := head?_some_filter w k hd hu (fate_extend_head w k r now hd hf)
      have hy' : y ∈ w.sessions.filter (isHead k) := List.mem_filter.mpr ⟨hy, hyh⟩
      rw [hflt, List.mem_singleton] at hy'
      subst hy'
      have hlow : y.start < r.ts + w.timeout := by
        have := hH; simp only [NoAcrossGap, hf, gapOk] at this; exact this
      exact chain_extend y r w.timeout (hok y hy) (hc y hy) hlow (fate_extend_high w k r now y hf)
  · exact hc s hs'

/-! ### all invariants together, over runs -/

structure Inv (w : SWin) : Prop where
  hok : AllOk w
  hu : HeadsUnique w
  hchan : ∀ x ∈ w.wm.chan, leOpt x w.wm.cur
  htime : 0 < w.timeout

theorem inv_init (timeout ooo lateness : Int) (ht : 0 < timeout) : Inv (init timeout ooo lateness) :=
  { hok := by intro s hs; cases hs
    hu := by intro k; simp [init]
    hchan := by intro x hx; cases hx
    htime := ht }

theorem inv_step (w : SWin) (op : Op) (h : Inv w) : Inv (step w op).1 := by
  cases op with
  | add k r now =>
    exact
      { hok := allOk_add w k r now h.hok
        hu := headsUnique_add w k r now h.hu
        hchan := fun x hx => Tumbling.updateEventTime_chan _ _ _ _ h.hchan hx
        htime := h.htime }
  | addNoTs => exact h
  | tick idle now =>
    exact { hok := h.hok, hu := h.hu, hchan := fun x hx => Tumbling.tick_chan _ _ _ _ h.hchan hx, htime := h.htime }
  | deliver =>
    simp only [step, stepDeliver]
    split
    · exact h
    · rename_i x wm' hp
      obtain ⟨hmem, hcur, hsub⟩ := Tumbling.pop_mem _ _ _ hp
      exact
        { hok := allOk_expire _ x h.hok
          hu := headsUnique_expire _ x h.hu
          hchan := by
            intro y hy
            show leOpt y wm'.cur
            rw [hcur]; exact h.hchan y (hsub y hy)
          htime := h.htime }

theorem inv_run (w : SWin) (ops : List Op) (h : Inv w) : Inv (run w ops).1 := by
  induction ops generalizing w with
  | nil => exact h
  | cons op ops ih => simp only [run]; exact ih _ (inv_step w op h)

theorem step_conserve (w : SWin) (op : Op) (x : Row) (h : Inv w) :
    (openRows (step w op).1).count x + (firstRows (step w op).2).count x
      = (openRows w).count x + (acceptedBy w op).count x := by
  cases op with
  | add k r now => exact add_conserve w k r now x h.hu
  | addNoTs => simp [step, acceptedBy, firstRows]
  | tick idle now => simp [step, acceptedBy, firstRows, openRows]
  | deliver =>
    simp only [step, stepDeliver, acceptedBy, List.count_nil, Nat.add_zero]
    split
    · simp [firstRows]
    · rename_i y wm' _
      have := expire_conserve { w with wm := wm' } y x
      simpa [openRows] using this

theorem firstRows_append (a b : List Emission) : firstRows (a ++ b) = firstRows a ++ firstRows b := by
  simp [firstRows, List.filter_append]

theorem run_conserve (w : SWin) (ops : List Op) (x : Row) (h : Inv w) :
    (openRows (run w ops).1).count x + (firstRows (run w ops).2).count x
      = (openRows w).count x + (acceptedRows w ops).count x := by
  induction ops generalizing w with
  | nil => simp [run, acceptedRows, firstRows]
  | cons op ops ih =>
    have h1 := step_conserve w op x h
    have h2 := ih (step w op).1 (inv_step w op h)
    simp only [run, acceptedRows, firstRows_append, List.count_append] at *
    omega

/-- shape of a delivered session -/
def EmOk (timeout : Int) (e : Emission) : Prop :=
  e.rows ≠ [] ∧ (∀ r ∈ e.rows, e.start ≤ r.ts ∧ r.ts + timeout ≤ e.stop) ∧
  (∃ r ∈ e.rows, r.ts = e.start) ∧ (∃ r ∈ e.rows, r.ts + timeout = e.stop)

theorem step_timeout (w : SWin) (op : Op) : (step w op).1.timeout = w.timeout := by
  cases op with
  | add k r now => rfl
  | addNoTs => rfl
  | tick idle now => rfl
  | deliver => simp only [step, stepDeliver]; split <;> rfl

theorem run_timeout (w : SWin) (ops : List Op) : (run w ops).1.timeout = w.timeout := by
  induction ops generalizing w with
  | nil => rfl
  | cons op ops ih => simp only [run]; rw [ih, step_timeout]

theorem leOpt_mono_step (w : SWin) (op : Op) (x : Int) (h : leOpt x w.wm.cur) : leOpt x (step w op).1.wm.cur := by
  cases op with
  | add k r now => exact Tumbling.updateEventTime_cur _ _ _ _ h
  | addNoTs => exact h
  | tick idle now => exact Tumbling.tick_cur _ _ _ _ h
  | deliver =>
    simp only [step, stepDeliver]
    split
    · exact h
    · rename_i y wm' hp
      obtain ⟨_, hcur, _⟩ := Tumbling.pop_mem _ _ _ hp
      show leOpt x wm'.cur
      rw [hcur]; exact h

/-- every first delivery of a run is well-shaped and its end is at or below the watermark -/
theorem run_firsts (w : SWin) (ops : List Op) (h : Inv w) :
    ∀ e ∈ (run w ops).2, e.late = false → EmOk w.timeout e ∧ leOpt e.stop (run w ops).1.wm.cur := by
  induction ops generalizing w with
  | nil => intro e he; cases he
  | cons op ops ih =>
    intro e he hl
    simp only [run, List.mem_append] at he ⊢
    have hmono : ∀ (w' : SWin) (ops' : List Op) (x : Int), leOpt x w'.wm.cur → leOpt x (run w' ops').1.wm.cur := by
      intro w' ops'
      induction ops' generalizing w' with
      | nil => intro x hx; exact hx
      | cons o os ih' => intro x hx; simp only [run]; exact ih' _ x (leOpt_mono_step w' o x hx)
    rcases he with he | he
    · -- delivered by this very op
      cases op with
      | add k r now =>
        have : e ∈ addEmit w k r now := he
        unfold addEmit at this
        split at this
        · simp only [List.mem_singleton] at this; rw [this] at hl; cases hl
        · cases this
      | addNoTs => cases he
      | tick idle now => cases he
      | deliver =>
        simp only [step, stepDeliver] at he ⊢
        split at he
        · cases he
        · rename_i y wm' hp
          obtain ⟨hmem, hcur, _⟩ := Tumbling.pop_mem _ _ _ hp
          have hw' : AllOk { w with wm := wm' } := h.hok
          obtain ⟨_, h2, h3, h4, h5, h6⟩ := expire_emissions { w with wm := wm' } y hw' h.htime e he
          refine ⟨⟨h2, h4, h5, h6⟩, ?_⟩
          apply hmono
          show leOpt e.stop wm'.cur
          rw [hcur]
          obtain ⟨z, hz, hyz⟩ := h.hchan y hmem
          exact ⟨z, hz, by omega⟩
    · have := ih (step w op).1 (inv_step w op h) e he hl
      rw [step_timeout] at this
      exact this

end Session

namespace Session
open Wm
open Tumbling (leOpt)

theorem allChain_step (w : SWin) (op : Op) (h : Inv w) (hc : AllChain w) (hH : NoAcrossGap w op) :
    AllChain (step w op).1 := by
  cases op with
  | add k r now => exact allChain_add w k r now h.hok h.hu hc hH
  | addNoTs => exact hc
  | tick idle now => exact hc
  | deliver =>
    simp only [step, stepDeliver]
    split
    · exact hc
    · intro s hs
      simp only [stepExpire, List.mem_filter] at hs
      exact hc s hs.1

/-- under H every delivered session satisfies the gap clause -/
theorem run_chain (w : SWin) (ops : List Op) (h : Inv w) (hc : AllChain w) (hH : NoAcrossGapAll w ops) :
    ∀ e ∈ (run w ops).2, e.late = false → Chain w.timeout e.start e.rows := by
  induction ops generalizing w with
  | nil => intro e he; cases he
  | cons op ops ih =>
    obtain ⟨hH1, hH2⟩ := hH
    intro e he hl
    simp only [run, List.mem_append] at he
    rcases he with he | he
    · cases op with
      | add k r now =>
        have : e ∈ addEmit w k r now := he
        unfold addEmit at this
        split at this
        · simp only [List.mem_singleton] at this; rw [this] at hl; cases hl
        · cases this
      | addNoTs => cases he
      | tick idle now => cases he
      | deliver =>
        simp only [step, stepDeliver] at he
        split at he
        · cases he
        · rename_i y wm' hp
          simp only [stepExpire, List.mem_map] at he
          obtain ⟨s, hs, rfl⟩ := he
          rw [mem_sortSess, List.mem_filter] at hs
          exact hc s hs.1
    · have := ih (step w op).1 (inv_step w op h) (allChain_step w op h hc hH1) hH2 e he hl
      rw [step_timeout] at this
      exact this

end Session
