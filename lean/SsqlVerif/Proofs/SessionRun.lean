/-
Helper lemmas for C10/C02: run-level invariants of the session state machine — well-shaped
sessions, sessions of one key a full timeout apart, the gap clause inside every session.
Core Lean only.
-/
import SsqlVerif.Proofs.Session
import SsqlVerif.Proofs.TumblingInv
set_option autoImplicit false
set_option linter.unusedVariables false
set_option linter.unusedSimpArgs false

namespace Session
open Wm
open Tumbling (leOpt)

/-- gap clause without sorting: every row except an earliest one has a strictly earlier row of
the same session within the timeout (equivalent to: consecutive sorted timestamps differ by at
most the timeout) -/
def Chain (timeout start : Int) (rows : List Row) : Prop :=
  ∀ r ∈ rows, r.ts = start ∨ ∃ r' ∈ rows, r'.ts < r.ts ∧ r.ts - r'.ts ≤ timeout

/-- two sessions a full timeout apart: one ends (last event + timeout) at or before the other starts -/
def Apart (a b : Sess) : Prop := a.stop ≤ b.start ∨ b.stop ≤ a.start

theorem chain_new (k : Key) (r : Row) (timeout : Int) (p : Nat) :
    Chain timeout (newSess k r timeout p).start (newSess k r timeout p).rows := by
  intro x hx; simp [newSess] at hx; subst hx; exact Or.inl rfl

/-- in a well-shaped chained session every instant above the start and below the end has a row
strictly before it within the timeout -/
theorem exists_pred (timeout : Int) (s : Sess) (hok : SessOk timeout s) (hc : Chain timeout s.start s.rows)
    (t : Int) (h1 : s.start < t) (h2 : t < s.stop) :
    ∃ r' ∈ s.rows, r'.ts < t ∧ t - r'.ts ≤ timeout := by
  by_cases hbig : s.lastActive < t
  · obtain ⟨m, hm, hmt⟩ := hok.hmax
    exact ⟨m, hm, by omega, by have := hok.hstop; omega⟩
  · have key : ∀ n : Nat, ∀ x ∈ s.rows, t ≤ x.ts → (x.ts - t).toNat = n →
        ∃ r' ∈ s.rows, r'.ts < t ∧ t - r'.ts ≤ timeout := by
      intro n
      induction n using Nat.strongRecOn with
      | _ n ih =>
        intro x hx hxt hn
        rcases hc x hx with hst | ⟨p, hp, hpl, hpd⟩
        · omega
        · by_cases hpt : p.ts < t
          · exact ⟨p, hp, hpt, by omega⟩
          · exact ih (p.ts - t).toNat (by omega) p hp (by omega) rfl
    obtain ⟨m, hm, hmt⟩ := hok.hmax
    exact key _ m hm (by omega) rfl

theorem sess_start_lt_stop (timeout : Int) (s : Sess) (hok : SessOk timeout s) (ht : 0 < timeout) : s.start < s.stop := by
  obtain ⟨m, hm, hmt⟩ := hok.hmin
  have := (hok.hbounds m hm).2
  have := hok.hstop
  omega

theorem minStart_eq_init (l : List Sess) (m : Int) (h : ∀ s ∈ l, m ≤ s.start) : minStart l m = m := by
  rcases minStart_attained l m with h1 | ⟨s, hs, h1⟩
  · exact h1
  · have := minStart_le_init l m
    have := h s hs
    omega

theorem minStart_eq_least (l : List Sess) (m : Int) (s : Sess) (hs : s ∈ l)
    (hleast : ∀ s' ∈ l, s.start ≤ s'.start) (hm : s.start ≤ m) : minStart l m = s.start := by
  have h1 := minStart_le_mem l m s hs
  rcases minStart_attained l m with h2 | ⟨s', hs', h2⟩
  · omega
  · have := hleast s' hs'; omega

/-- the session obtained by merging chained, mutually apart sessions that the row touches is chained -/
theorem merged_chain (timeout : Int) (ht : 0 < timeout) (k : Key) (t : Sess) (os : List Sess) (r : Row)
    (hok : ∀ s ∈ t :: os, SessOk timeout s)
    (hch : ∀ s ∈ t :: os, Chain timeout s.start s.rows)
    (htouch : ∀ s ∈ t :: os, touches timeout k r.ts s = true)
    (hapart : ∀ a ∈ t :: os, ∀ b ∈ t :: os, a.start < b.start → Apart a b) :
    Chain timeout (merged timeout t os r).start (merged timeout t os r).rows := by
  have htch : ∀ s ∈ t :: os, s.start - timeout < r.ts ∧ r.ts < s.stop := by
    intro s hs
    have := htouch s hs
    simp only [touches, Bool.and_eq_true, decide_eq_true_eq] at this
    exact ⟨this.1.2, this.2⟩
  have hsub : ∀ s ∈ t :: os, ∀ x ∈ s.rows, x ∈ (merged timeout t os r).rows :=
    fun s hs x hx => (merged_rows_mem timeout t os r x).mpr (Or.inr ⟨s, hs, hx⟩)
  have hrm : r ∈ (merged timeout t os r).rows := (merged_rows_mem timeout t os r r).mpr (Or.inl rfl)
  intro x hx
  show x.ts = minStart (t :: os) r.ts ∨ _
  rcases (merged_rows_mem timeout t os r x).mp hx with hxr | ⟨s, hs, hxs⟩
  · subst hxr
    by_cases hbelow : ∃ s ∈ t :: os, s.start < x.ts
    · obtain ⟨s, hs, hlt⟩ := hbelow
      obtain ⟨p, hp, h1, h2⟩ := exists_pred timeout s (hok s hs) (hch s hs) x.ts hlt (htch s hs).2
      exact Or.inr ⟨p, hsub s hs p hp, h1, h2⟩
    · left
      symm
      apply minStart_eq_init
      intro s hs
      rcases Int.lt_or_le s.start x.ts with h | h
      · exact absurd ⟨s, hs, h⟩ hbelow
      · exact h
  · rcases hch s hs x hxs with hst | ⟨p, hp, h1, h2⟩
    · by_cases hr : r.ts < s.start
      · right
        exact ⟨r, hrm, by omega, by have := (htch s hs).1; omega⟩
      · left
        rw [hst]; symm
        apply minStart_eq_least (t :: os) r.ts s hs
        · intro s' hs'
          rcases Int.lt_or_le s'.start s.start with hlt | hge
          · exfalso
            have hss := sess_start_lt_stop timeout s (hok s hs) ht
            rcases hapart s' hs' s hs hlt with h | h
            · have := (htch s' hs').2; omega
            · omega
          · exact hge
        · omega
    · exact Or.inr ⟨p, hsub s hs p hp, h1, h2⟩

/-- symmetric reading of a pairwise relation -/
theorem pairwise_both {α : Type} (R : α → α → Prop) (hsym : ∀ a b, R a b → R b a) (l : List α)
    (h : l.Pairwise R) : ∀ a ∈ l, ∀ b ∈ l, a ≠ b → R a b := by
  induction l with
  | nil => intro a ha; cases ha
  | cons x l ih =>
    rw [List.pairwise_cons] at h
    intro a ha b hb hne
    rcases List.mem_cons.mp ha with rfl | ha' <;> rcases List.mem_cons.mp hb with rfl | hb'
    · exact absurd rfl hne
    · exact h.1 b hb'
    · exact hsym _ _ (h.1 a ha')
    · exact ih h.2 a ha' b hb' hne

def SameKeyApart (a b : Sess) : Prop := a.key = b.key → Apart a b

theorem sameKeyApart_symm (a b : Sess) (h : SameKeyApart a b) : SameKeyApart b a := by
  intro hk
  rcases h hk.symm with h1 | h1
  · exact Or.inr h1
  · exact Or.inl h1

/-! ### all invariants together -/

structure Inv (w : SWin) : Prop where
  hok : AllOk w
  hchain : ∀ s ∈ w.sessions, Chain w.timeout s.start s.rows
  hsep : w.sessions.Pairwise SameKeyApart
  hchan : ∀ x ∈ w.wm.chan, leOpt x w.wm.cur
  htime : 0 < w.timeout

theorem inv_init (timeout ooo lateness : Int) (ht : 0 < timeout) : Inv (init timeout ooo lateness) :=
  { hok := by intro s hs; cases hs
    hchain := by intro s hs; cases hs
    hsep := List.Pairwise.nil
    hchan := by intro x hx; cases hx
    htime := ht }

theorem touches_key (timeout : Int) (k : Key) (ts : Int) (s : Sess) (h : touches timeout k ts s = true) : s.key = k := by
  simp only [touches, Bool.and_eq_true, beq_iff_eq] at h
  exact h.1.1

theorem not_touches (timeout : Int) (k : Key) (ts : Int) (s : Sess) (h : touches timeout k ts s = false)
    (hk : s.key = k) : ts ≤ s.start - timeout ∨ s.stop ≤ ts := by
  simp only [touches, hk, beq_self_eq_true, Bool.true_and, Bool.and_eq_false_iff, decide_eq_false_iff_not] at h
  omega

theorem inv_add (w : SWin) (k : Key) (r : Row) (now : Int) (h : Inv w) : Inv (stepAdd w k r now).1 := by
  have hchan' : ∀ x ∈ (stepAdd w k r now).1.wm.chan, leOpt x (stepAdd w k r now).1.wm.cur :=
    fun x hx => Tumbling.updateEventTime_chan _ _ _ _ h.hchan hx
  have hok' := allOk_add w k r now h.hok
  refine { hok := hok', hchain := ?_, hsep := ?_, hchan := hchan', htime := h.htime }
  · -- chain
    intro s hs
    have hs' : s ∈ addSessions w k r now := hs
    show Chain w.timeout s.start s.rows
    unfold addSessions at hs'
    split at hs'
    · simp only [List.mem_append, List.mem_singleton] at hs'
      rcases hs' with hs' | hs'
      · exact h.hchain s hs'
      · subst hs'; exact chain_new k r w.timeout _
    · rename_i t os hf
      simp only [List.mem_append, List.mem_singleton, List.mem_filter] at hs'
      rcases hs' with hs' | hs'
      · exact h.hchain s hs'.1
      · subst hs'
        have ht := (fate_join_touched w k r now t os hf).1
        have hmem : ∀ x ∈ t :: os, x ∈ w.sessions ∧ touches w.timeout k r.ts x = true := by
          intro x hx
          have : x ∈ touched w k r := by rw [ht]; exact hx
          exact (mem_touched w k r x).mp this
        apply merged_chain w.timeout h.htime k t os r
        · intro x hx; exact h.hok x (hmem x hx).1
        · intro x hx; exact h.hchain x (hmem x hx).1
        · intro x hx; exact (hmem x hx).2
        · intro a ha b hb hlt
          have hne : a ≠ b := by intro he; rw [he] at hlt; omega
          have := pairwise_both SameKeyApart sameKeyApart_symm w.sessions h.hsep a (hmem a ha).1 b (hmem b hb).1 hne
          exact this (by rw [touches_key _ _ _ _ (hmem a ha).2, touches_key _ _ _ _ (hmem b hb).2])
    · exact h.hchain s hs'
  · -- separation
    show (addSessions w k r now).Pairwise SameKeyApart
    unfold addSessions
    split
    · rename_i hf
      have ht := (fate_create_touched w k r now hf).1
      rw [List.pairwise_append]
      refine ⟨h.hsep, List.pairwise_singleton _ _, ?_⟩
      intro a ha b hb
      simp only [List.mem_singleton] at hb
      subst hb
      intro hk
      have hnt : touches w.timeout k r.ts a = false := by
        cases hc : touches w.timeout k r.ts a with
        | false => rfl
        | true =>
          have : a ∈ touched w k r := (mem_touched w k r a).mpr ⟨ha, hc⟩
          rw [ht] at this; cases this
      rcases not_touches _ _ _ _ hnt hk with h1 | h1
      · exact Or.inr (by show r.ts + w.timeout ≤ a.start; omega)
      · exact Or.inl (by show a.stop ≤ r.ts; exact h1)
    · rename_i t os hf
      have ht := (fate_join_touched w k r now t os hf).1
      have hmem : ∀ x ∈ t :: os, x ∈ w.sessions ∧ touches w.timeout k r.ts x = true := by
        intro x hx
        have : x ∈ touched w k r := by rw [ht]; exact hx
        exact (mem_touched w k r x).mp this
      rw [List.pairwise_append]
      refine ⟨List.Pairwise.filter _ h.hsep, List.pairwise_singleton _ _, ?_⟩
      intro u hu b hb
      simp only [List.mem_singleton] at hb
      subst hb
      simp only [List.mem_filter, Bool.not_eq_true'] at hu
      intro hk
      have hku : u.key = k := by
        rw [hk]; show t.key = k
        exact touches_key _ _ _ _ (hmem t (by simp)).2
      have husess := sess_start_lt_stop w.timeout u (h.hok u hu.1) h.htime
      -- u is apart from every touched session
      have hap : ∀ s ∈ t :: os, Apart u s := by
        intro s hs
        have hne : u ≠ s := by
          intro he; rw [he] at hu; rw [(hmem s hs).2] at hu; cases hu.2
        have := pairwise_both SameKeyApart sameKeyApart_symm w.sessions h.hsep u hu.1 s (hmem s hs).1 hne
        exact this (by rw [hku, touches_key _ _ _ _ (hmem s hs).2])
      have htch : ∀ s ∈ t :: os, s.start - w.timeout < r.ts ∧ r.ts < s.stop := by
        intro s hs
        have := (hmem s hs).2
        simp only [touches, Bool.and_eq_true, decide_eq_true_eq] at this
        exact ⟨this.1.2, this.2⟩
      rcases not_touches _ _ _ _ hu.2 hku with h1 | h1
      · -- u lies above: the merged session ends at or before u starts
        right
        show maxLast (t :: os) r.ts + w.timeout ≤ u.start
        rcases maxLast_attained (t :: os) r.ts with hm | ⟨s, hs, hm⟩
        · omega
        · rw [hm]
          have hst := (h.hok s (hmem s hs).1).hstop
          rcases hap s hs with h2 | h2
          · have := (htch s hs).1; omega
          · omega
      · -- u lies below: u ends at or before the merged session starts
        left
        show u.stop ≤ minStart (t :: os) r.ts
        rcases minStart_attained (t :: os) r.ts with hm | ⟨s, hs, hm⟩
        · omega
        · rw [hm]
          rcases hap s hs with h2 | h2
          · exact h2
          · have := (htch s hs).2; omega
    · exact h.hsep

theorem inv_expire (w : SWin) (x : Int) (h : Inv w) : Inv (stepExpire w x).1 :=
  { hok := allOk_expire w x h.hok
    hchain := by
      intro s hs
      simp only [stepExpire, List.mem_filter] at hs
      exact h.hchain s hs.1
    hsep := List.Pairwise.filter _ h.hsep
    hchan := h.hchan
    htime := h.htime }

theorem inv_step (w : SWin) (op : Op) (h : Inv w) : Inv (step w op).1 := by
  cases op with
  | add k r now => exact inv_add w k r now h
  | addNoTs => exact h
  | tick idle now =>
    exact { hok := h.hok, hchain := h.hchain, hsep := h.hsep,
            hchan := fun x hx => Tumbling.tick_chan _ _ _ _ h.hchan hx, htime := h.htime }
  | deliver =>
    simp only [step, stepDeliver]
    split
    · exact h
    · rename_i x wm' hp
      obtain ⟨hmem, hcur, hsub⟩ := Tumbling.pop_mem _ _ _ hp
      have h' : Inv { w with wm := wm' } :=
        { hok := h.hok, hchain := h.hchain, hsep := h.hsep, htime := h.htime
          hchan := by intro y hy; show leOpt y wm'.cur; rw [hcur]; exact h.hchan y (hsub y hy) }
      exact inv_expire _ x h'

theorem inv_run (w : SWin) (ops : List Op) (h : Inv w) : Inv (run w ops).1 := by
  induction ops generalizing w with
  | nil => exact h
  | cons op ops ih => simp only [run]; exact ih _ (inv_step w op h)

theorem step_conserve (w : SWin) (op : Op) (x : Row) :
    (openRows (step w op).1).count x + (firstRows (step w op).2).count x
      = (openRows w).count x + (acceptedBy w op).count x := by
  cases op with
  | add k r now => exact add_conserve w k r now x
  | addNoTs => simp [step, acceptedBy, firstRows]
  | tick idle now => simp [step, acceptedBy, firstRows, openRows]
  | deliver =>
    simp only [step, stepDeliver, acceptedBy, List.count_nil, Nat.add_zero]
    split
    · simp [firstRows]
    · rename_i y wm' _
      have := expire_conserve { w with wm := wm' } y x
      simpa [openRows] using this

theorem firstRows_append (a b : List Emission) : firstRows (a ++ b) = firstRows a ++ firstRows b := by
  simp [firstRows, List.filter_append]

theorem run_conserve (w : SWin) (ops : List Op) (x : Row) :
    (openRows (run w ops).1).count x + (firstRows (run w ops).2).count x
      = (openRows w).count x + (acceptedRows w ops).count x := by
  induction ops generalizing w with
  | nil => simp [run, acceptedRows, firstRows]
  | cons op ops ih =>
    have h1 := step_conserve w op x
    have h2 := ih (step w op).1
    simp only [run, acceptedRows, firstRows_append, List.count_append] at *
    omega

/-- shape of a delivered session -/
def EmOk (timeout : Int) (e : Emission) : Prop :=
  e.rows ≠ [] ∧ (∀ r ∈ e.rows, e.start ≤ r.ts ∧ r.ts + timeout ≤ e.stop) ∧
  (∃ r ∈ e.rows, r.ts = e.start) ∧ (∃ r ∈ e.rows, r.ts + timeout = e.stop)

theorem step_timeout (w : SWin) (op : Op) : (step w op).1.timeout = w.timeout := by
  cases op with
  | add k r now => rfl
  | addNoTs => rfl
  | tick idle now => rfl
  | deliver => simp only [step, stepDeliver]; split <;> rfl

theorem run_timeout (w : SWin) (ops : List Op) : (run w ops).1.timeout = w.timeout := by
  induction ops generalizing w with
  | nil => rfl
  | cons op ops ih => simp only [run]; rw [ih, step_timeout]

theorem leOpt_mono_step (w : SWin) (op : Op) (x : Int) (h : leOpt x w.wm.cur) : leOpt x (step w op).1.wm.cur := by
  cases op with
  | add k r now => exact Tumbling.updateEventTime_cur _ _ _ _ h
  | addNoTs => exact h
  | tick idle now => exact Tumbling.tick_cur _ _ _ _ h
  | deliver =>
    simp only [step, stepDeliver]
    split
    · exact h
    · rename_i y wm' hp
      obtain ⟨_, hcur, _⟩ := Tumbling.pop_mem _ _ _ hp
      show leOpt x wm'.cur
      rw [hcur]; exact h

/-- every first delivery of a run is well-shaped, satisfies the gap clause, and its end is at or
below the watermark -/
theorem run_firsts (w : SWin) (ops : List Op) (h : Inv w) :
    ∀ e ∈ (run w ops).2, e.late = false →
      EmOk w.timeout e ∧ Chain w.timeout e.start e.rows ∧ leOpt e.stop (run w ops).1.wm.cur := by
  induction ops generalizing w with
  | nil => intro e he; cases he
  | cons op ops ih =>
    intro e he hl
    simp only [run, List.mem_append] at he ⊢
    have hmono : ∀ (w' : SWin) (ops' : List Op) (x : Int), leOpt x w'.wm.cur → leOpt x (run w' ops').1.wm.cur := by
      intro w' ops'
      induction ops' generalizing w' with
      | nil => intro x hx; exact hx
      | cons o os ih' => intro x hx; simp only [run]; exact ih' _ x (leOpt_mono_step w' o x hx)
    rcases he with he | he
    · cases op with
      | add k r now =>
        have : e ∈ addEmit w k r now := he
        unfold addEmit at this
        split at this
        · simp only [List.mem_singleton] at this; rw [this] at hl; cases hl
        · cases this
      | addNoTs => cases he
      | tick idle now => cases he
      | deliver =>
        simp only [step, stepDeliver] at he ⊢
        split at he
        · cases he
        · rename_i y wm' hp
          obtain ⟨hmem, hcur, _⟩ := Tumbling.pop_mem _ _ _ hp
          have hw' : AllOk { w with wm := wm' } := h.hok
          obtain ⟨_, h2, h3, h4, h5, h6⟩ := expire_emissions { w with wm := wm' } y hw' h.htime e he
          refine ⟨⟨h2, h4, h5, h6⟩, ?_, ?_⟩
          · simp only [stepExpire, List.mem_map] at he
            obtain ⟨s, hs, rfl⟩ := he
            rw [mem_sortSess, List.mem_filter] at hs
            exact h.hchain s hs.1
          · apply hmono
            show leOpt e.stop wm'.cur
            rw [hcur]
            obtain ⟨z, hz, hyz⟩ := h.hchan y hmem
            exact ⟨z, hz, by omega⟩
    · have := ih (step w op).1 (inv_step w op h) e he hl
      rw [step_timeout] at this
      exact this

end Session
