/-
C06 — helper lemmas: the strict (expr-lang) table model agrees with the SQL reference when no
sub-expression is NULL on the row; composition lemmas for the SELECT router.
-/
import SsqlVerif.Proofs.Expr
set_option autoImplicit false

namespace Ex
open NumOps

section
variable {ν : Type} [NumOps ν]

theorem xlArith_sql (op : AOp) (x y v : Value ν) (h : sqlArith op x y = .ok v)
    (hx : x ≠ .null) (hy : y ≠ .null) : xlArith op x y = some v := by
  cases x with
  | null => exact absurd rfl hx
  | num a =>
    cases y with
    | null => exact absurd rfl hy
    | num b =>
      have h : (if (op = .div && isZero b) = true then SRes.bad .divZero
          else if isNaN (aop op a b) = true then SRes.bad .nan else SRes.ok (.num (aop op a b))) = SRes.ok v := h
      by_cases h1 : (op = .div && isZero b) = true
      · rw [if_pos h1] at h; cases h
      · rw [if_neg h1] at h
        by_cases h2 : isNaN (aop op a b) = true
        · rw [if_pos h2] at h; cases h
        · rw [if_neg h2] at h; cases h; rfl
    | str _ => simp [sqlArith] at h
    | bool _ => simp [sqlArith] at h
  | str _ => cases y <;> simp [sqlArith] at h
  | bool _ => cases y <;> simp [sqlArith] at h

theorem xlCmp_sql (op : COp) (x y v : Value ν) (h : sqlCmp op x y = .ok v)
    (hx : x ≠ .null) (hy : y ≠ .null) : (xlCmp op x y).map Value.bool = some v := by
  cases x with
  | null => exact absurd rfl hx
  | num a =>
    cases y with
    | null => exact absurd rfl hy
    | num b => simp [sqlCmp] at h; subst h; cases op <;> simp [xlCmp, xlEqual, xlOrd, numCmp]
    | str _ => simp [sqlCmp] at h
    | bool _ => simp [sqlCmp] at h
  | str s =>
    cases y with
    | null => exact absurd rfl hy
    | num _ => simp [sqlCmp] at h
    | str t => simp [sqlCmp] at h; subst h; cases op <;> simp [xlCmp, xlEqual, xlOrd, strCmp]
    | bool _ => simp [sqlCmp] at h
  | bool a =>
    cases y with
    | null => exact absurd rfl hy
    | num _ => simp [sqlCmp] at h
    | str _ => simp [sqlCmp] at h
    | bool b => cases op <;> simp [sqlCmp] at h <;> subst h <;> simp [xlCmp, xlEqual]

omit [NumOps ν] in
theorem sqlAnd_nonnull (x y v : Value ν) (h : sqlAnd x y = .ok v) (hx : x ≠ .null) (hy : y ≠ .null) :
    ∃ a b, x = .bool a ∧ y = .bool b ∧ v = .bool (a && b) := by
  cases x with
  | null => exact absurd rfl hx
  | bool a => cases y with
    | null => exact absurd rfl hy
    | bool b => cases a <;> cases b <;> simp [sqlAnd] at h <;> subst h <;> exact ⟨_, _, rfl, rfl, rfl⟩
    | num _ => cases a <;> simp [sqlAnd] at h
    | str _ => cases a <;> simp [sqlAnd] at h
  | num _ => cases y <;> simp [sqlAnd] at h
  | str _ => cases y <;> simp [sqlAnd] at h

omit [NumOps ν] in
theorem sqlOr_nonnull (x y v : Value ν) (h : sqlOr x y = .ok v) (hx : x ≠ .null) (hy : y ≠ .null) :
    ∃ a b, x = .bool a ∧ y = .bool b ∧ v = .bool (a || b) := by
  cases x with
  | null => exact absurd rfl hx
  | bool a => cases y with
    | null => exact absurd rfl hy
    | bool b => cases a <;> cases b <;> simp [sqlOr] at h <;> subst h <;> exact ⟨_, _, rfl, rfl, rfl⟩
    | num _ => cases a <;> simp [sqlOr] at h
    | str _ => cases a <;> simp [sqlOr] at h
  | num _ => cases y <;> simp [sqlOr] at h
  | str _ => cases y <;> simp [sqlOr] at h

/-- under `allNonNull` the SQL value of the expression itself is not NULL -/
theorem allNonNull_value (env : Env ν) (row : Row ν) : ∀ (e : Expr) (v : Value ν),
    allNonNull env row e = true → sqlEval env row e .e = .ok v → v ≠ .null := by
  intro e
  induction e with
  | lit l => intro v _ h; simp [sqlEval] at h; subst h; simp
  | str s => intro v _ h; simp [sqlEval] at h; subst h; simp
  | paren e ih => intro v ha h; simp only [allNonNull] at ha; simp only [sqlEval] at h; exact ih v ha h
  | col c => intro v ha h; simp only [allNonNull, nonNull] at ha; rw [h] at ha; cases v <;> simp_all
  | neg e _ => intro v ha h; simp only [allNonNull, Bool.and_eq_true, nonNull] at ha; rw [h] at ha; cases v <;> simp_all
  | arith op l r _ _ => intro v ha h; simp only [allNonNull, Bool.and_eq_true, nonNull] at ha; rw [h] at ha; cases v <;> simp_all
  | cmp op l r _ _ => intro v ha h; simp only [allNonNull, Bool.and_eq_true, nonNull] at ha; rw [h] at ha; cases v <;> simp_all
  | and l r _ _ => intro v ha h; simp only [allNonNull, Bool.and_eq_true, nonNull] at ha; rw [h] at ha; cases v <;> simp_all
  | or l r _ _ => intro v ha h; simp only [allNonNull, Bool.and_eq_true, nonNull] at ha; rw [h] at ha; cases v <;> simp_all
  | not e _ => intro v ha h; simp only [allNonNull, Bool.and_eq_true, nonNull] at ha; rw [h] at ha; cases v <;> simp_all
  | call1 f a _ => intro v ha h; simp only [allNonNull, Bool.and_eq_true, nonNull] at ha; rw [h] at ha; cases v <;> simp_all
  | call2 f a b _ _ => intro v ha h; simp only [allNonNull, Bool.and_eq_true, nonNull] at ha; rw [h] at ha; cases v <;> simp_all
  | call3 f a b c _ _ _ => intro v ha h; simp only [allNonNull, Bool.and_eq_true, nonNull] at ha; rw [h] at ha; cases v <;> simp_all
  | caseS _ _ => intro v ha; simp [allNonNull] at ha
  | caseV _ _ _ _ => intro v ha; simp [allNonNull] at ha
  | whenL _ _ _ _ _ _ => intro v ha; simp [allNonNull] at ha
  | elseL _ _ => intro v ha; simp [allNonNull] at ha
  | endL => intro v ha; simp [allNonNull] at ha

/-- the table model computes the SQL value when nothing is NULL: in WHERE position (`sel = false`)
it always succeeds; in SELECT position it may decline (SQL keywords) but never gives another value -/
theorem xl_sound (env : Env ν) (row : Row ν) : ∀ (e : Expr) (v : Value ν),
    sqlEval env row e .e = .ok v → allNonNull env row e = true →
    xl env row false e = some v ∧ ∀ sel v', xl env row sel e = some v' → v' = v := by
  intro e
  induction e with
  | lit l => intro v h _; simp [sqlEval] at h; subst h; simp [xl]
  | str s => intro v h _; simp [sqlEval] at h; subst h; simp [xl]
  | col c => intro v h _; simp [sqlEval] at h; subst h; simp [xl]
  | paren e ih =>
    intro v h ha
    simp only [sqlEval] at h; simp only [allNonNull] at ha
    simpa [xl] using ih v h ha
  | neg e ih =>
    intro v h ha
    simp only [sqlEval] at h
    obtain ⟨x, y, hx, hy, hf⟩ := bind2_ok h
    cases hx
    simp only [allNonNull, Bool.and_eq_true] at ha
    obtain ⟨i1, i2⟩ := ih y hy ha.1
    have hyn := allNonNull_value env row e y ha.1 hy
    have hxa := xlArith_sql .sub (.num (ofNat 0)) y v hf (by simp) hyn
    cases y with
    | num b =>
      simp only [xlArith, aop] at hxa
      refine ⟨by simp [xl, i1, hxa] , ?_⟩
      intro sel v' hv
      simp only [xl] at hv
      cases hq : xl env row sel e with
      | none => simp [hq] at hv
      | some q =>
        have := i2 sel q hq; subst this
        simp [hq] at hv
        rw [← hv]; simpa using hxa
    | null => exact absurd rfl hyn
    | str _ => simp [xlArith] at hxa
    | bool _ => simp [xlArith] at hxa
  | arith op l r ihl ihr =>
    intro v h ha
    simp only [sqlEval] at h
    obtain ⟨x, y, hx, hy, hf⟩ := bind2_ok h
    simp only [allNonNull, Bool.and_eq_true] at ha
    obtain ⟨l1, l2⟩ := ihl x hx ha.1.1
    obtain ⟨r1, r2⟩ := ihr y hy ha.1.2
    have hxa := xlArith_sql op x y v hf (allNonNull_value env row l x ha.1.1 hx) (allNonNull_value env row r y ha.1.2 hy)
    refine ⟨by simp [xl, l1, r1, hxa], ?_⟩
    intro sel v' hv
    simp only [xl] at hv
    cases hq : xl env row sel l with
    | none => simp [hq] at hv
    | some q =>
      cases hp : xl env row sel r with
      | none => simp [hq, hp] at hv
      | some p =>
        have := l2 sel q hq; subst this
        have := r2 sel p hp; subst this
        simp [hq, hp, hxa] at hv
        exact hv.symm
  | cmp op l r ihl ihr =>
    intro v h ha
    simp only [sqlEval] at h
    obtain ⟨x, y, hx, hy, hf⟩ := bind2_ok h
    simp only [allNonNull, Bool.and_eq_true] at ha
    obtain ⟨l1, l2⟩ := ihl x hx ha.1.1
    obtain ⟨r1, r2⟩ := ihr y hy ha.1.2
    have hxa := xlCmp_sql op x y v hf (allNonNull_value env row l x ha.1.1 hx) (allNonNull_value env row r y ha.1.2 hy)
    refine ⟨by simp [xl, l1, r1, hxa], ?_⟩
    intro sel v' hv
    simp only [xl] at hv
    by_cases hsel : (sel && decide (op = .eq)) = true
    · simp [hsel] at hv
    · cases hq : xl env row sel l with
      | none => simp [hsel, hq] at hv
      | some q =>
        cases hp : xl env row sel r with
        | none => simp [hsel, hq, hp] at hv
        | some p =>
          have := l2 sel q hq; subst this
          have := r2 sel p hp; subst this
          simp only [hq, hp, hxa] at hv
          simp [hsel] at hv
          exact hv.symm
  | and l r ihl ihr =>
    intro v h ha
    simp only [sqlEval] at h
    obtain ⟨x, y, hx, hy, hf⟩ := bind2_ok h
    simp only [allNonNull, Bool.and_eq_true] at ha
    obtain ⟨l1, l2⟩ := ihl x hx ha.1.1
    obtain ⟨r1, r2⟩ := ihr y hy ha.1.2
    obtain ⟨a, b, rfl, rfl, rfl⟩ := sqlAnd_nonnull x y v hf
      (allNonNull_value env row l _ ha.1.1 hx) (allNonNull_value env row r _ ha.1.2 hy)
    refine ⟨by cases a <;> simp [xl, l1, r1], ?_⟩
    intro sel v' hv
    cases sel with
    | true => simp [xl] at hv
    | false => cases a <;> simp [xl, l1, r1] at hv <;> simp [← hv]
  | or l r ihl ihr =>
    intro v h ha
    simp only [sqlEval] at h
    obtain ⟨x, y, hx, hy, hf⟩ := bind2_ok h
    simp only [allNonNull, Bool.and_eq_true] at ha
    obtain ⟨l1, l2⟩ := ihl x hx ha.1.1
    obtain ⟨r1, r2⟩ := ihr y hy ha.1.2
    obtain ⟨a, b, rfl, rfl, rfl⟩ := sqlOr_nonnull x y v hf
      (allNonNull_value env row l _ ha.1.1 hx) (allNonNull_value env row r _ ha.1.2 hy)
    refine ⟨by cases a <;> simp [xl, l1, r1], ?_⟩
    intro sel v' hv
    cases sel with
    | true => simp [xl] at hv
    | false => cases a <;> simp [xl, l1, r1] at hv <;> simp [← hv]
  | not e ih =>
    intro v h ha
    simp only [sqlEval] at h
    simp only [allNonNull, Bool.and_eq_true] at ha
    cases hx : sqlEval env row e .e with
    | bad w => simp [hx] at h
    | ok x =>
      simp only [hx] at h
      obtain ⟨i1, i2⟩ := ih x hx ha.1
      have hxn := allNonNull_value env row e x ha.1 hx
      cases x with
      | null => exact absurd rfl hxn
      | bool a =>
        simp [sqlNot] at h; subst h
        refine ⟨by simp [xl, i1], ?_⟩
        intro sel v' hv
        cases sel with
        | true => simp [xl] at hv
        | false => simp [xl, i1] at hv; simp [← hv]
      | num _ => simp [sqlNot] at h
      | str _ => simp [sqlNot] at h
  | call1 f a iha =>
    intro v h ha
    simp only [sqlEval] at h
    simp only [allNonNull, Bool.and_eq_true] at ha
    cases hx : sqlEval env row a .e with
    | bad w => simp [hx] at h
    | ok x =>
      simp only [hx] at h
      obtain ⟨a1, a2⟩ := iha x hx ha.1
      have hf := sqlCall_ok h
      refine ⟨by simp [xl, a1, hf], ?_⟩
      intro sel v' hv
      simp only [xl] at hv
      cases hq : xl env row sel a with
      | none => simp [hq] at hv
      | some q =>
        have := a2 sel q hq; subst this
        simp [hq, hf] at hv; exact hv.symm
  | call2 f a b iha ihb =>
    intro v h ha
    simp only [sqlEval] at h
    simp only [allNonNull, Bool.and_eq_true] at ha
    cases hx : sqlEval env row a .e with
    | bad w => simp [hx] at h
    | ok x =>
      cases hy : sqlEval env row b .e with
      | bad w => simp [hx, hy] at h
      | ok y =>
        simp only [hx, hy] at h
        obtain ⟨a1, a2⟩ := iha x hx ha.1.1
        obtain ⟨b1, b2⟩ := ihb y hy ha.1.2
        have hf := sqlCall_ok h
        refine ⟨by simp [xl, a1, b1, hf], ?_⟩
        intro sel v' hv
        simp only [xl] at hv
        cases hq : xl env row sel a with
        | none => simp [hq] at hv
        | some q =>
          cases hp : xl env row sel b with
          | none => simp [hq, hp] at hv
          | some p =>
            have := a2 sel q hq; subst this
            have := b2 sel p hp; subst this
            simp [hq, hp, hf] at hv; exact hv.symm
  | call3 f a b c iha ihb ihc =>
    intro v h ha
    simp only [sqlEval] at h
    simp only [allNonNull, Bool.and_eq_true] at ha
    cases hx : sqlEval env row a .e with
    | bad w => simp [hx] at h
    | ok x =>
      cases hy : sqlEval env row b .e with
      | bad w => simp [hx, hy] at h
      | ok y =>
        cases hz : sqlEval env row c .e with
        | bad w => simp [hx, hy, hz] at h
        | ok z =>
          simp only [hx, hy, hz] at h
          obtain ⟨a1, a2⟩ := iha x hx ha.1.1.1
          obtain ⟨b1, b2⟩ := ihb y hy ha.1.1.2
          obtain ⟨c1, c2⟩ := ihc z hz ha.1.2
          have hf := sqlCall_ok h
          refine ⟨by simp [xl, a1, b1, c1, hf], ?_⟩
          intro sel v' hv
          simp only [xl] at hv
          cases hq : xl env row sel a with
          | none => simp [hq] at hv
          | some q =>
            cases hp : xl env row sel b with
            | none => simp [hq, hp] at hv
            | some p =>
              cases ho : xl env row sel c with
              | none => simp [hq, hp, ho] at hv
              | some o =>
                have := a2 sel q hq; subst this
                have := b2 sel p hp; subst this
                have := c2 sel o ho; subst this
                simp [hq, hp, ho, hf] at hv; exact hv.symm
  | caseS _ _ => intro v _ ha; simp [allNonNull] at ha
  | caseV _ _ _ _ => intro v _ ha; simp [allNonNull] at ha
  | whenL _ _ _ _ _ _ => intro v _ ha; simp [allNonNull] at ha
  | elseL _ _ => intro v _ ha; simp [allNonNull] at ha
  | endL => intro v _ ha; simp [allNonNull] at ha

end
end Ex
