/-
C06 — helper lemmas: the strict (expr-lang) table model agrees with the SQL reference when no
sub-expression is NULL on the row; composition lemmas for the SELECT router.
-/
import SsqlVerif.Proofs.Expr
set_option autoImplicit false

namespace Ex
open NumOps

section
variable {ν : Type} [NumOps ν]

theorem xlArith_sql (op : AOp) (x y v : Value ν) (h : sqlArith op x y = .ok v)
    (hx : x ≠ .null) (hy : y ≠ .null) : xlArith op x y = some v := by
  cases x with
  | null => exact absurd rfl hx
  | num a =>
    cases y with
    | null => exact absurd rfl hy
    | num b =>
      have h : (if (op = .div && isZero b) = true then SRes.bad .divZero
          else if isNaN (aop op a b) = true then SRes.bad .nan else SRes.ok (.num (aop op a b))) = SRes.ok v := h
      by_cases h1 : (op = .div && isZero b) = true
      · rw [if_pos h1] at h; cases h
      · rw [if_neg h1] at h
        by_cases h2 : isNaN (aop op a b) = true
        · rw [if_pos h2] at h; cases h
        · rw [if_neg h2] at h; cases h; rfl
    | str _ => simp [sqlArith] at h
    | bool _ => simp [sqlArith] at h
  | str _ => cases y <;> simp [sqlArith] at h
  | bool _ => cases y <;> simp [sqlArith] at h

theorem xlCmp_sql (op : COp) (x y v : Value ν) (h : sqlCmp op x y = .ok v)
    (hx : x ≠ .null) (hy : y ≠ .null) : (xlCmp op x y).map Value.bool = some v := by
  cases x with
  | null => exact absurd rfl hx
  | num a =>
    cases y with
    | null => exact absurd rfl hy
    | num b => simp [sqlCmp] at h; subst h; cases op <;> simp [xlCmp, xlEqual, xlOrd, numCmp]
    | str _ => simp [sqlCmp] at h
    | bool _ => simp [sqlCmp] at h
  | str s =>
    cases y with
    | null => exact absurd rfl hy
    | num _ => simp [sqlCmp] at h
    | str t => simp [sqlCmp] at h; subst h; cases op <;> simp [xlCmp, xlEqual, xlOrd, strCmp]
    | bool _ => simp [sqlCmp] at h
  | bool a =>
    cases y with
    | null => exact absurd rfl hy
    | num _ => simp [sqlCmp] at h
    | str _ => simp [sqlCmp] at h
    | bool b => cases op <;> simp [sqlCmp] at h <;> subst h <;> simp [xlCmp, xlEqual]

omit [NumOps ν] in
theorem sqlAnd_nonnull (x y v : Value ν) (h : sqlAnd x y = .ok v) (hx : x ≠ .null) (hy : y ≠ .null) :
    ∃ a b, x = .bool a ∧ y = .bool b ∧ v = .bool (a && b) := by
  cases x with
  | null => exact absurd rfl hx
  | bool a => cases y with
    | null => exact absurd rfl hy
    | bool b => cases a <;> cases b <;> simp [sqlAnd] at h <;> subst h <;> exact ⟨_, _, rfl, rfl, rfl⟩
    | num _ => cases a <;> simp [sqlAnd] at h
    | str _ => cases a <;> simp [sqlAnd] at h
  | num _ => cases y <;> simp [sqlAnd] at h
  | str _ => cases y <;> simp [sqlAnd] at h

omit [NumOps ν] in
theorem sqlOr_nonnull (x y v : Value ν) (h : sqlOr x y = .ok v) (hx : x ≠ .null) (hy : y ≠ .null) :
    ∃ a b, x = .bool a ∧ y = .bool b ∧ v = .bool (a || b) := by
  cases x with
  | null => exact absurd rfl hx
  | bool a => cases y with
    | null => exact absurd rfl hy
    | bool b => cases a <;> cases b <;> simp [sqlOr] at h <;> subst h <;> exact ⟨_, _, rfl, rfl, rfl⟩
    | num _ => cases a <;> simp [sqlOr] at h
    | str _ => cases a <;> simp [sqlOr] at h
  | num _ => cases y <;> simp [sqlOr] at h
  | str _ => cases y <;> simp [sqlOr] at h

/-- under `allNonNull` the SQL value of the expression itself is not NULL -/
theorem allNonNull_value (env : Env ν) (row : Row ν) : ∀ (e : Expr) (v : Value ν),
    allNonNull env row e = true → sqlEval env row e .e = .ok v → v ≠ .null := by
  intro e
  induction e with
  | lit l => intro v _ h; simp [sqlEval] at h; subst h; simp
  | str s => intro v _ h; simp [sqlEval] at h; subst h; simp
  | paren e ih => intro v ha h; simp only [allNonNull] at ha; simp only [sqlEval] at h; exact ih v ha h
  | col c => intro v ha h; simp only [allNonNull, nonNull] at ha; rw [h] at ha; cases v <;> simp_all
  | neg e _ => intro v ha h; simp only [allNonNull, Bool.and_eq_true, nonNull] at ha; rw [h] at ha; cases v <;> simp_all
  | arith op l r _ _ => intro v ha h; simp only [allNonNull, Bool.and_eq_true, nonNull] at ha; rw [h] at ha; cases v <;> simp_all
  | cmp op l r _ _ => intro v ha h; simp only [allNonNull, Bool.and_eq_true, nonNull] at ha; rw [h] at ha; cases v <;> simp_all
  | and l r _ _ => intro v ha h; simp only [allNonNull, Bool.and_eq_true, nonNull] at ha; rw [h] at ha; cases v <;> simp_all
  | or l r _ _ => intro v ha h; simp only [allNonNull, Bool.and_eq_true, nonNull] at ha; rw [h] at ha; cases v <;> simp_all
  | not e _ => intro v ha h; simp only [allNonNull, Bool.and_eq_true, nonNull] at ha; rw [h] at ha; cases v <;> simp_all
  | call1 f a _ => intro v ha h; simp only [allNonNull, Bool.and_eq_true, nonNull] at ha; rw [h] at ha; cases v <;> simp_all
  | call2 f a b _ _ => intro v ha h; simp only [allNonNull, Bool.and_eq_true, nonNull] at ha; rw [h] at ha; cases v <;> simp_all
  | call3 f a b c _ _ _ => intro v ha h; simp only [allNonNull, Bool.and_eq_true, nonNull] at ha; rw [h] at ha; cases v <;> simp_all
  | caseS _ _ => intro v ha; simp [allNonNull] at ha
  | caseV _ _ _ _ => intro v ha; simp [allNonNull] at ha
  | whenL _ _ _ _ _ _ => intro v ha; simp [allNonNull] at ha
  | elseL _ _ => intro v ha; simp [allNonNull] at ha
  | endL => intro v ha; simp [allNonNull] at ha

theorem constInt_sound (env : Env ν) (row : Row ν) : ∀ (e : Expr) (x : ν) (v : Value ν),
    constInt e = some x → sqlEval env row e .e = .ok v → v = .num x := by
  intro e
  induction e with
  | lit l =>
    intro x v hc h
    simp only [constInt] at hc
    by_cases hq : l.q = 0
    · simp [hq] at hc; subst hc
      simp [sqlEval, litVal, hq] at h; exact h.symm
    · simp [hq] at hc
  | paren e ih => intro x v hc h; simp only [constInt] at hc; simp only [sqlEval] at h; exact ih x v hc h
  | neg e ih =>
    intro x v hc h
    simp only [constInt] at hc
    cases hce : constInt (ν := ν) e with
    | none => simp [hce] at hc
    | some y =>
      simp [hce] at hc; subst hc
      simp only [sqlEval] at h
      obtain ⟨a, b, ha, hb, hf⟩ := bind2_ok h
      cases ha
      have := ih y b hce hb; subst this
      have h2 := xlArith_sql .sub (.num (ofNat 0)) (.num y) v hf (by simp) (by simp)
      simp [xlArith, aop] at h2; exact h2.symm
  | arith op l r ihl ihr =>
    intro x v hc h
    simp only [sqlEval] at h
    obtain ⟨a, b, ha, hb, hf⟩ := bind2_ok h
    cases op with
    | div => simp [constInt] at hc
    | add =>
      simp only [constInt] at hc
      cases hl : constInt (ν := ν) l <;> cases hr : constInt (ν := ν) r <;> simp [hl, hr] at hc
      rename_i p q; subst hc
      have := ihl p a hl ha; subst this
      have := ihr q b hr hb; subst this
      have h2 := xlArith_sql .add (.num p) (.num q) v hf (by simp) (by simp)
      simp [xlArith, aop] at h2; exact h2.symm
    | sub =>
      simp only [constInt] at hc
      cases hl : constInt (ν := ν) l <;> cases hr : constInt (ν := ν) r <;> simp [hl, hr] at hc
      rename_i p q; subst hc
      have := ihl p a hl ha; subst this
      have := ihr q b hr hb; subst this
      have h2 := xlArith_sql .sub (.num p) (.num q) v hf (by simp) (by simp)
      simp [xlArith, aop] at h2; exact h2.symm
    | mul =>
      simp only [constInt] at hc
      cases hl : constInt (ν := ν) l <;> cases hr : constInt (ν := ν) r <;> simp [hl, hr] at hc
      rename_i p q; subst hc
      have := ihl p a hl ha; subst this
      have := ihr q b hr hb; subst this
      have h2 := xlArith_sql .mul (.num p) (.num q) v hf (by simp) (by simp)
      simp [xlArith, aop] at h2; exact h2.symm
  | str _ => intro x v hc; simp [constInt] at hc
  | col _ => intro x v hc; simp [constInt] at hc
  | cmp _ _ _ _ _ => intro x v hc; simp [constInt] at hc
  | and _ _ _ _ => intro x v hc; simp [constInt] at hc
  | or _ _ _ _ => intro x v hc; simp [constInt] at hc
  | not _ _ => intro x v hc; simp [constInt] at hc
  | caseS _ _ => intro x v hc; simp [constInt] at hc
  | caseV _ _ _ _ => intro x v hc; simp [constInt] at hc
  | whenL _ _ _ _ _ _ => intro x v hc; simp [constInt] at hc
  | elseL _ _ => intro x v hc; simp [constInt] at hc
  | endL => intro x v hc; simp [constInt] at hc
  | call1 _ _ _ => intro x v hc; simp [constInt] at hc
  | call2 _ _ _ _ _ => intro x v hc; simp [constInt] at hc
  | call3 _ _ _ _ _ _ _ => intro x v hc; simp [constInt] at hc

theorem constStr_sound (env : Env ν) (row : Row ν) : ∀ (e : Expr) (s : Str) (v : Value ν),
    constStr e = some s → sqlEval env row e .e = .ok v → v = .str s := by
  intro e
  induction e with
  | str t => intro s v hc h; simp [constStr] at hc; subst hc; simp [sqlEval] at h; exact h.symm
  | paren e ih => intro s v hc h; simp only [constStr] at hc; simp only [sqlEval] at h; exact ih s v hc h
  | lit _ => intro s v hc; simp [constStr] at hc
  | col _ => intro s v hc; simp [constStr] at hc
  | neg _ _ => intro s v hc; simp [constStr] at hc
  | arith _ _ _ _ _ => intro s v hc; simp [constStr] at hc
  | cmp _ _ _ _ _ => intro s v hc; simp [constStr] at hc
  | and _ _ _ _ => intro s v hc; simp [constStr] at hc
  | or _ _ _ _ => intro s v hc; simp [constStr] at hc
  | not _ _ => intro s v hc; simp [constStr] at hc
  | caseS _ _ => intro s v hc; simp [constStr] at hc
  | caseV _ _ _ _ => intro s v hc; simp [constStr] at hc
  | whenL _ _ _ _ _ _ => intro s v hc; simp [constStr] at hc
  | elseL _ _ => intro s v hc; simp [constStr] at hc
  | endL => intro s v hc; simp [constStr] at hc
  | call1 _ _ _ => intro s v hc; simp [constStr] at hc
  | call2 _ _ _ _ _ => intro s v hc; simp [constStr] at hc
  | call3 _ _ _ _ _ _ _ => intro s v hc; simp [constStr] at hc

theorem foldStrEq_sound (env : Env ν) (row : Row ν) (l r : Expr) (b : Bool) (x y v : Value ν)
    (hf : foldStrEq l r = some b) (hx : sqlEval env row l .e = .ok x) (hy : sqlEval env row r .e = .ok y)
    (hc : sqlCmp .eq x y = .ok v) : v = .bool b := by
  unfold foldStrEq at hf
  cases hl : constStr l <;> cases hr : constStr r <;> simp [hl, hr] at hf
  rename_i s t
  have := constStr_sound env row l s x hl hx; subst this
  have := constStr_sound env row r t y hr hy; subst this
  simp [sqlCmp, strCmp] at hc; subst hc; simp [hf]

theorem foldIntEq_sound (env : Env ν) (row : Row ν) (l r : Expr) (b : Bool) (x y v : Value ν)
    (hf : foldIntEq (ν := ν) l r = some b) (hx : sqlEval env row l .e = .ok x) (hy : sqlEval env row r .e = .ok y)
    (hc : sqlCmp .eq x y = .ok v) : v = .bool b := by
  unfold foldIntEq at hf
  cases hl : constInt (ν := ν) l <;> cases hr : constInt (ν := ν) r <;> simp [hl, hr] at hf
  rename_i p q
  have := constInt_sound env row l p x hl hx; subst this
  have := constInt_sound env row r q y hr hy; subst this
  simp [sqlCmp, numCmp] at hc; subst hc; simp [hf]

omit [NumOps ν] in
theorem foldAnd_table (fl fr : Option Bool) (p q b : Bool)
    (hl : ∀ x, fl = some x → x = p) (hr : ∀ x, fr = some x → x = q)
    (hf : andTable fl fr = some b) : (p && q) = b := by
  cases fl with
  | none => cases fr with
    | none => simp [andTable] at hf
    | some y => have := hr y rfl; subst this; cases y <;> simp [andTable] at hf <;> subst hf <;> simp
  | some x =>
    have := hl x rfl; subst this
    cases fr with
    | none => cases x <;> simp [andTable] at hf <;> subst hf <;> simp
    | some y => have := hr y rfl; subst this; cases x <;> cases y <;> simp [andTable] at hf <;> subst hf <;> simp

omit [NumOps ν] in
theorem foldOr_table (fl fr : Option Bool) (p q b : Bool)
    (hl : ∀ x, fl = some x → x = p) (hr : ∀ x, fr = some x → x = q)
    (hf : orTable fl fr = some b) : (p || q) = b := by
  cases fl with
  | none => cases fr with
    | none => simp [orTable] at hf
    | some y => have := hr y rfl; subst this; cases y <;> simp [orTable] at hf <;> subst hf <;> simp
  | some x =>
    have := hl x rfl; subst this
    cases fr with
    | none => cases x <;> simp [orTable] at hf <;> subst hf <;> simp
    | some y => have := hr y rfl; subst this; cases x <;> cases y <;> simp [orTable] at hf <;> subst hf <;> simp

/-- a condition the optimizer folds to a constant has that constant as its SQL value (NULL-free rows) -/
theorem fold_sound (env : Env ν) (row : Row ν) : ∀ (e : Expr) (b : Bool) (v : Value ν),
    foldBool (ν := ν) e = some b → sqlEval env row e .e = .ok v → allNonNull env row e = true → v = .bool b := by
  intro e
  induction e with
  | paren e ih =>
    intro b v hf h ha
    simp only [foldBool] at hf; simp only [sqlEval] at h; simp only [allNonNull] at ha
    exact ih b v hf h ha
  | cmp op l r _ _ =>
    intro b v hf h ha
    simp only [sqlEval] at h
    obtain ⟨x, y, hx, hy, hc⟩ := bind2_ok h
    cases op with
    | eq =>
      simp only [foldBool] at hf
      cases hs : foldStrEq l r with
      | some sb =>
        simp [hs] at hf; subst hf
        exact foldStrEq_sound env row l r sb x y v hs hx hy hc
      | none =>
        simp [hs] at hf
        exact foldIntEq_sound env row l r b x y v hf hx hy hc
    | ne => simp [foldBool] at hf
    | lt => simp [foldBool] at hf
    | le => simp [foldBool] at hf
    | gt => simp [foldBool] at hf
    | ge => simp [foldBool] at hf
  | not e ih =>
    intro b v hf h ha
    simp only [foldBool] at hf
    simp only [sqlEval] at h
    simp only [allNonNull, Bool.and_eq_true] at ha
    cases hx : sqlEval env row e .e with
    | bad w => simp [hx] at h
    | ok x =>
      simp only [hx] at h
      cases hfe : foldBool (ν := ν) e with
      | none => simp [hfe] at hf
      | some b' =>
        simp [hfe] at hf
        have := ih b' x hfe hx ha.1; subst this
        simp [sqlNot] at h; subst h; simp [hf]
  | and l r ihl ihr =>
    intro b v hf h ha
    simp only [sqlEval] at h
    obtain ⟨x, y, hx, hy, hc⟩ := bind2_ok h
    simp only [allNonNull, Bool.and_eq_true] at ha
    obtain ⟨p, q, rfl, rfl, rfl⟩ := sqlAnd_nonnull x y v hc
      (allNonNull_value env row l _ ha.1.1 hx) (allNonNull_value env row r _ ha.1.2 hy)
    simp only [foldBool] at hf
    have := foldAnd_table (foldBool (ν := ν) l) (foldBool (ν := ν) r) p q b
      (fun z hz => by have := ihl z _ hz hx ha.1.1; cases this; rfl)
      (fun z hz => by have := ihr z _ hz hy ha.1.2; cases this; rfl) hf
    simp [this]
  | or l r ihl ihr =>
    intro b v hf h ha
    simp only [sqlEval] at h
    obtain ⟨x, y, hx, hy, hc⟩ := bind2_ok h
    simp only [allNonNull, Bool.and_eq_true] at ha
    obtain ⟨p, q, rfl, rfl, rfl⟩ := sqlOr_nonnull x y v hc
      (allNonNull_value env row l _ ha.1.1 hx) (allNonNull_value env row r _ ha.1.2 hy)
    simp only [foldBool] at hf
    have := foldOr_table (foldBool (ν := ν) l) (foldBool (ν := ν) r) p q b
      (fun z hz => by have := ihl z _ hz hx ha.1.1; cases this; rfl)
      (fun z hz => by have := ihr z _ hz hy ha.1.2; cases this; rfl) hf
    simp [this]
  | lit _ => intro b v hf; simp [foldBool] at hf
  | str _ => intro b v hf; simp [foldBool] at hf
  | col _ => intro b v hf; simp [foldBool] at hf
  | neg _ _ => intro b v hf; simp [foldBool] at hf
  | arith _ _ _ _ _ => intro b v hf; simp [foldBool] at hf
  | caseS _ _ => intro b v hf; simp [foldBool] at hf
  | caseV _ _ _ _ => intro b v hf; simp [foldBool] at hf
  | whenL _ _ _ _ _ _ => intro b v hf; simp [foldBool] at hf
  | elseL _ _ => intro b v hf; simp [foldBool] at hf
  | endL => intro b v hf; simp [foldBool] at hf
  | call1 _ _ _ => intro b v hf; simp [foldBool] at hf
  | call2 _ _ _ _ _ => intro b v hf; simp [foldBool] at hf
  | call3 _ _ _ _ _ _ _ => intro b v hf; simp [foldBool] at hf

/-- the table model computes the SQL value when nothing is NULL: in WHERE position (`sel = false`)
it always succeeds; in SELECT position it may decline (SQL keywords) but never gives another value -/
theorem xl_sound (env : Env ν) (row : Row ν) : ∀ (e : Expr) (v : Value ν),
    sqlEval env row e .e = .ok v → allNonNull env row e = true →
    xl env row false e = some v ∧ ∀ sel v', xl env row sel e = some v' → v' = v := by
  intro e
  induction e with
  | lit l => intro v h _; simp [sqlEval] at h; subst h; simp [xl]
  | str s => intro v h _; simp [sqlEval] at h; subst h; simp [xl]
  | col c => intro v h _; simp [sqlEval] at h; subst h; simp [xl]
  | paren e ih =>
    intro v h ha
    simp only [sqlEval] at h; simp only [allNonNull] at ha
    simpa [xl] using ih v h ha
  | neg e ih =>
    intro v h ha
    simp only [sqlEval] at h
    obtain ⟨x, y, hx, hy, hf⟩ := bind2_ok h
    cases hx
    simp only [allNonNull, Bool.and_eq_true] at ha
    obtain ⟨i1, i2⟩ := ih y hy ha.1
    have hyn := allNonNull_value env row e y ha.1 hy
    have hxa := xlArith_sql .sub (.num (ofNat 0)) y v hf (by simp) hyn
    cases y with
    | num b =>
      simp only [xlArith, aop] at hxa
      refine ⟨by simp [xl, i1, hxa] , ?_⟩
      intro sel v' hv
      simp only [xl] at hv
      cases hq : xl env row sel e with
      | none => simp [hq] at hv
      | some q =>
        have := i2 sel q hq; subst this
        simp [hq] at hv
        rw [← hv]; simpa using hxa
    | null => exact absurd rfl hyn
    | str _ => simp [xlArith] at hxa
    | bool _ => simp [xlArith] at hxa
  | arith op l r ihl ihr =>
    intro v h ha
    simp only [sqlEval] at h
    obtain ⟨x, y, hx, hy, hf⟩ := bind2_ok h
    simp only [allNonNull, Bool.and_eq_true] at ha
    obtain ⟨l1, l2⟩ := ihl x hx ha.1.1
    obtain ⟨r1, r2⟩ := ihr y hy ha.1.2
    have hxa := xlArith_sql op x y v hf (allNonNull_value env row l x ha.1.1 hx) (allNonNull_value env row r y ha.1.2 hy)
    refine ⟨by simp [xl, l1, r1, hxa], ?_⟩
    intro sel v' hv
    simp only [xl] at hv
    cases hq : xl env row sel l with
    | none => simp [hq] at hv
    | some q =>
      cases hp : xl env row sel r with
      | none => simp [hq, hp] at hv
      | some p =>
        have := l2 sel q hq; subst this
        have := r2 sel p hp; subst this
        simp [hq, hp, hxa] at hv
        exact hv.symm
  | cmp op l r ihl ihr =>
    intro v h ha
    simp only [sqlEval] at h
    obtain ⟨x, y, hx, hy, hf⟩ := bind2_ok h
    simp only [allNonNull, Bool.and_eq_true] at ha
    obtain ⟨l1, l2⟩ := ihl x hx ha.1.1
    obtain ⟨r1, r2⟩ := ihr y hy ha.1.2
    have hxa := xlCmp_sql op x y v hf (allNonNull_value env row l x ha.1.1 hx) (allNonNull_value env row r y ha.1.2 hy)
    refine ⟨by simp [xl, l1, r1, hxa], ?_⟩
    intro sel v' hv
    simp only [xl] at hv
    by_cases hsel : (sel && decide (op = .eq)) = true
    · simp [hsel] at hv
    · cases hq : xl env row sel l with
      | none => simp [hsel, hq] at hv
      | some q =>
        cases hp : xl env row sel r with
        | none => simp [hsel, hq, hp] at hv
        | some p =>
          have := l2 sel q hq; subst this
          have := r2 sel p hp; subst this
          simp only [hq, hp, hxa] at hv
          simp [hsel] at hv
          exact hv.symm
  | and l r ihl ihr =>
    intro v h ha
    simp only [sqlEval] at h
    obtain ⟨x, y, hx, hy, hf⟩ := bind2_ok h
    simp only [allNonNull, Bool.and_eq_true] at ha
    obtain ⟨l1, l2⟩ := ihl x hx ha.1.1
    obtain ⟨r1, r2⟩ := ihr y hy ha.1.2
    have hall : allNonNull env row (.and l r) = true := by simp [allNonNull, ha]
    cases hfold : foldBool (ν := ν) (.and l r) with
    | some fb =>
      have := fold_sound env row (.and l r) fb v hfold (by simpa [sqlEval] using h) hall
      subst this
      refine ⟨by simp [xl, hfold], ?_⟩
      intro sel v' hv
      cases sel with
      | true => simp [xl] at hv
      | false => simp [xl, hfold] at hv; exact hv.symm
    | none =>
    obtain ⟨a, b, rfl, rfl, rfl⟩ := sqlAnd_nonnull x y v hf
      (allNonNull_value env row l _ ha.1.1 hx) (allNonNull_value env row r _ ha.1.2 hy)
    refine ⟨by cases a <;> simp [xl, hfold, l1, r1], ?_⟩
    intro sel v' hv
    cases sel with
    | true => simp [xl] at hv
    | false => cases a <;> simp [xl, hfold, l1, r1] at hv <;> simp [← hv]
  | or l r ihl ihr =>
    intro v h ha
    simp only [sqlEval] at h
    obtain ⟨x, y, hx, hy, hf⟩ := bind2_ok h
    simp only [allNonNull, Bool.and_eq_true] at ha
    obtain ⟨l1, l2⟩ := ihl x hx ha.1.1
    obtain ⟨r1, r2⟩ := ihr y hy ha.1.2
    have hall : allNonNull env row (.or l r) = true := by simp [allNonNull, ha]
    cases hfold : foldBool (ν := ν) (.or l r) with
    | some fb =>
      have := fold_sound env row (.or l r) fb v hfold (by simpa [sqlEval] using h) hall
      subst this
      refine ⟨by simp [xl, hfold], ?_⟩
      intro sel v' hv
      cases sel with
      | true => simp [xl] at hv
      | false => simp [xl, hfold] at hv; exact hv.symm
    | none =>
    obtain ⟨a, b, rfl, rfl, rfl⟩ := sqlOr_nonnull x y v hf
      (allNonNull_value env row l _ ha.1.1 hx) (allNonNull_value env row r _ ha.1.2 hy)
    refine ⟨by cases a <;> simp [xl, hfold, l1, r1], ?_⟩
    intro sel v' hv
    cases sel with
    | true => simp [xl] at hv
    | false => cases a <;> simp [xl, hfold, l1, r1] at hv <;> simp [← hv]
  | not e ih =>
    intro v h ha
    simp only [sqlEval] at h
    simp only [allNonNull, Bool.and_eq_true] at ha
    cases hx : sqlEval env row e .e with
    | bad w => simp [hx] at h
    | ok x =>
      simp only [hx] at h
      obtain ⟨i1, i2⟩ := ih x hx ha.1
      have hxn := allNonNull_value env row e x ha.1 hx
      cases x with
      | null => exact absurd rfl hxn
      | bool a =>
        simp [sqlNot] at h; subst h
        cases hfold : foldBool (ν := ν) (.not e) with
        | some fb =>
          have := fold_sound env row (.not e) fb (.bool (!a)) hfold (by simp [sqlEval, hx, sqlNot])
            (by simp [allNonNull, ha])
          cases this
          refine ⟨by simp [xl, hfold], ?_⟩
          intro sel v' hv
          cases sel with
          | true => simp [xl] at hv
          | false => simp [xl, hfold] at hv; simp [← hv]
        | none =>
        refine ⟨by simp [xl, hfold, i1], ?_⟩
        intro sel v' hv
        cases sel with
        | true => simp [xl] at hv
        | false => simp [xl, hfold, i1] at hv; simp [← hv]
      | num _ => simp [sqlNot] at h
      | str _ => simp [sqlNot] at h
  | call1 f a iha =>
    intro v h ha
    simp only [sqlEval] at h
    simp only [allNonNull, Bool.and_eq_true] at ha
    cases hx : sqlEval env row a .e with
    | bad w => simp [hx] at h
    | ok x =>
      simp only [hx] at h
      obtain ⟨a1, a2⟩ := iha x hx ha.1
      have hf := sqlCall_ok h
      refine ⟨by simp [xl, a1, hf], ?_⟩
      intro sel v' hv
      simp only [xl] at hv
      cases hq : xl env row sel a with
      | none => simp [hq] at hv
      | some q =>
        have := a2 sel q hq; subst this
        simp [hq, hf] at hv; exact hv.symm
  | call2 f a b iha ihb =>
    intro v h ha
    simp only [sqlEval] at h
    simp only [allNonNull, Bool.and_eq_true] at ha
    cases hx : sqlEval env row a .e with
    | bad w => simp [hx] at h
    | ok x =>
      cases hy : sqlEval env row b .e with
      | bad w => simp [hx, hy] at h
      | ok y =>
        simp only [hx, hy] at h
        obtain ⟨a1, a2⟩ := iha x hx ha.1.1
        obtain ⟨b1, b2⟩ := ihb y hy ha.1.2
        have hf := sqlCall_ok h
        refine ⟨by simp [xl, a1, b1, hf], ?_⟩
        intro sel v' hv
        simp only [xl] at hv
        cases hq : xl env row sel a with
        | none => simp [hq] at hv
        | some q =>
          cases hp : xl env row sel b with
          | none => simp [hq, hp] at hv
          | some p =>
            have := a2 sel q hq; subst this
            have := b2 sel p hp; subst this
            simp [hq, hp, hf] at hv; exact hv.symm
  | call3 f a b c iha ihb ihc =>
    intro v h ha
    simp only [sqlEval] at h
    simp only [allNonNull, Bool.and_eq_true] at ha
    cases hx : sqlEval env row a .e with
    | bad w => simp [hx] at h
    | ok x =>
      cases hy : sqlEval env row b .e with
      | bad w => simp [hx, hy] at h
      | ok y =>
        cases hz : sqlEval env row c .e with
        | bad w => simp [hx, hy, hz] at h
        | ok z =>
          simp only [hx, hy, hz] at h
          obtain ⟨a1, a2⟩ := iha x hx ha.1.1.1
          obtain ⟨b1, b2⟩ := ihb y hy ha.1.1.2
          obtain ⟨c1, c2⟩ := ihc z hz ha.1.2
          have hf := sqlCall_ok h
          refine ⟨by simp [xl, a1, b1, c1, hf], ?_⟩
          intro sel v' hv
          simp only [xl] at hv
          cases hq : xl env row sel a with
          | none => simp [hq] at hv
          | some q =>
            cases hp : xl env row sel b with
            | none => simp [hq, hp] at hv
            | some p =>
              cases ho : xl env row sel c with
              | none => simp [hq, hp, ho] at hv
              | some o =>
                have := a2 sel q hq; subst this
                have := b2 sel p hp; subst this
                have := c2 sel o ho; subst this
                simp [hq, hp, ho, hf] at hv; exact hv.symm
  | caseS _ _ => intro v _ ha; simp [allNonNull] at ha
  | caseV _ _ _ _ => intro v _ ha; simp [allNonNull] at ha
  | whenL _ _ _ _ _ _ => intro v _ ha; simp [allNonNull] at ha
  | elseL _ _ => intro v _ ha; simp [allNonNull] at ha
  | endL => intro v _ ha; simp [allNonNull] at ha

end
end Ex
