/-
Helper lemmas for C19, part 4: from the invariants to the statements of `Props/C19`.
Core Lean only.
-/
import SsqlVerif.Proofs.IngestStep
set_option autoImplicit false
set_option linter.unusedVariables false
set_option linter.unusedSimpArgs false

namespace Ingest

theorem perm_of_cons (s : State) (h : Cons s) : (accounted s).Perm (entered s) := by
  rw [List.perm_iff_count]
  intro r
  rw [count_accounted, count_entered]
  exact h r

theorem count_rows (r : Row) (id : Nat) : ∀ n, List.count r ((List.range n).map (Row.mk id)) =
    if r.prod = id ∧ r.seq < n then 1 else 0 := by
  intro n
  induction n with
  | zero => simp
  | succ n ih =>
    rw [List.range_succ, List.map_append, List.count_append, ih]
    simp only [List.map_cons, List.map_nil, List.count_singleton]
    obtain ⟨rp, rs⟩ := r
    by_cases h1 : rp = id
    · by_cases h2 : rs < n
      · have : ¬ (n = rs) := by omega
        simp [h1, h2, this]; omega
      · by_cases h3 : rs = n
        · simp [h1, h3]
        · have h4 : ¬ (n = rs) := fun h => h3 h.symm
          have h5 : ¬ (rs < n + 1) := by omega
          simp [h1, h2, h4, h5]
    · have h1' : ¬ (id = rp) := fun h => h1 h.symm
      simp [h1, h1']

theorem ent_le_one_aux (r : Row) : ∀ (ps : List Prod) (k : Nat),
    (∀ (i : Nat) (q : Prod), ps[i]? = some q → q.id = k + i) → ent r ps ≤ 1 ∧ (r.prod < k → ent r ps = 0) := by
  intro ps
  induction ps with
  | nil => intro k _; simp [ent]
  | cons p rest ih =>
    intro k hid
    have hp : p.id = k := by simpa using hid 0 p (by simp)
    have hrest : ∀ (i : Nat) (q : Prod), rest[i]? = some q → q.id = (k + 1) + i := by
      intro i q hq
      have := hid (i + 1) q (by simpa using hq)
      omega
    obtain ⟨h1, h2⟩ := ih (k + 1) hrest
    have hc := count_rows r p.id p.next
    have hsplit : ent r (p :: rest) = List.count r (entRows p) + ent r rest := by
      simp [ent, List.flatMap_cons, List.count_append]
    rw [hsplit]
    unfold entRows
    rw [hc]
    constructor
    · by_cases hk : r.prod = k
      · have := h2 (by omega)
        rw [this]; split <;> omega
      · have : ¬ (r.prod = p.id ∧ r.seq < p.next) := by rw [hp]; intro h; exact hk h.1
        simp [this]; exact h1
    · intro hlt
      have : ¬ (r.prod = p.id ∧ r.seq < p.next) := by rw [hp]; intro h; omega
      simp [this]
      exact h2 (by omega)

theorem ent_le_one (c : Cfg) (s : State) (hinv : Inv c s) (r : Row) : ent r s.prods ≤ 1 :=
  (ent_le_one_aux r s.prods 0 (by intro i q hq; have := (hinv.p i q hq).hid; omega)).1

theorem accounted_nodup (c : Cfg) (s : State) (hinv : Inv c s) (hc : Cons s) : (accounted s).Nodup := by
  rw [List.nodup_iff_count]
  intro r
  rw [count_accounted, hc r]
  exact ent_le_one c s hinv r

theorem length_entered (ps : List Prod) : (ps.flatMap entRows).length = sumNext ps := by
  induction ps with
  | nil => simp [sumNext]
  | cons p rest ih => simp [List.flatMap_cons, entRows, sumNext] at ih ⊢; first | done | omega

/-! ### quiescence -/

/-- total number of buffered rows when only channel `k` may be non-empty -/
theorem length_flatMap_single (cs : List Chan) (k : Nat)
    (h : ∀ (i : Nat) (ch : Chan), cs[i]? = some ch → ch.buf ≠ [] → i = k) :
    (cs.flatMap (·.buf)).length = match cs[k]? with
      | some ch => ch.buf.length
      | none => 0 := by
  induction cs generalizing k with
  | nil => simp
  | cons a rest ih =>
    cases k with
    | zero =>
      have hrest : (rest.flatMap (·.buf)) = [] := by
        rw [List.flatMap_eq_nil_iff]
        intro ch hch
        obtain ⟨i, hi⟩ := List.getElem?_of_mem hch
        cases hb : ch.buf with
        | nil => rfl
        | cons x xs =>
          have := h (i + 1) ch (by simpa using hi) (by rw [hb]; simp)
          omega
      simp [List.flatMap_cons, hrest]
    | succ k' =>
      have ha : a.buf = [] := by
        cases hb : a.buf with
        | nil => rfl
        | cons x xs =>
          have := h 0 a (by simp) (by rw [hb]; simp)
          omega
      have := ih k' (by
        intro i ch hi hne
        have := h (i + 1) ch (by simpa using hi) hne
        omega)
      simp [List.flatMap_cons, ha, this]

theorem allIdle_pc (s : State) (h : allIdle s = true) (p : Prod) (hp : p ∈ s.prods) : p.pc = .idle := by
  have := List.all_eq_true.mp h p hp
  simpa using this

theorem allIdle_fly (s : State) (hi : IdleOk s) (h : allIdle s = true) : s.prods.flatMap flyRows = [] := by
  rw [List.flatMap_eq_nil_iff]
  intro p hp
  obtain ⟨i, hi'⟩ := List.getElem?_of_mem hp
  have := hi i p hi' (allIdle_pc s h p hp)
  simp [flyRows, this]

/-- not stopped, no migration in progress: all buffered rows are in the current channel -/
theorem buffered_cur (c : Cfg) (s : State) (hinv : Inv c s) (hst : s.stopped = false) (hmig : s.mig = none) :
    (s.chans.flatMap (·.buf)).length = curLen s := by
  obtain ⟨k, hk⟩ : ∃ k, s.curCh = some k := by
    cases hc : s.curCh with
    | some k => exact ⟨k, rfl⟩
    | none =>
      have := hinv.core.flags.2.1 hc
      rw [hst] at this; simp at this
  have hsingle := length_flatMap_single s.chans k (by
    intro i ch hi hne
    rcases hinv.core.others i ch hi hne with h1 | h1 | ⟨j, o, h1⟩
    · rw [hst] at h1; simp at h1
    · rw [hk] at h1; simp at h1; exact h1.symm
    · rw [hmig] at h1; simp at h1)
  have hcl : curLen s = match s.chans[k]? with
      | some ch => ch.buf.length
      | none => 0 := by
    simp only [curLen, hk]
    cases s.chans[k]? <;> rfl
  rw [hcl, ← hsingle]

theorem exits_nil (c : Cfg) (s : State) (hinv : Inv c s) (hst : s.stopped = false) : s.exits = [] := by
  cases he : s.exits with
  | nil => rfl
  | cons x xs =>
    have := hinv.core.flags.2.2 (by rw [he]; simp)
    rw [hst] at this; simp at this

theorem allIdle_mig (c : Cfg) (s : State) (hinv : Inv c s) (hidle : allIdle s = true) : s.mig = none := by
  cases hm : s.mig with
  | none => rfl
  | some x =>
    obtain ⟨j, o, n⟩ := x
    obtain ⟨p, hp, hpc⟩ := hinv.own j o n hm
    have := allIdle_pc s hidle p (List.mem_of_getElem? hp)
    rw [hpc] at this; simp at this

theorem input_entered (s : State) (hci : CI s) : s.input = (entered s).length := by
  rw [entered, length_entered]; exact hci.2.2

/-- not stopped, all Emit calls returned: every emitted row is processed, dropped, or in the
current input buffer -/
theorem quiescent_count (c : Cfg) (s : State) (hinv : Inv c s) (hci : CI s)
    (hst : s.stopped = false) (hidle : allIdle s = true) :
    s.processed.length + s.dropped.length + curLen s = s.input := by
  have hlen := (perm_of_cons s hci.1).length_eq
  have hfly := allIdle_fly s hci.2.1 hidle
  have hex := exits_nil c s hinv hst
  have hbuf := buffered_cur c s hinv hst (allIdle_mig c s hinv hidle)
  rw [input_entered s hci, ← hlen, ← hbuf]
  simp [accounted, hex, hfly]
  omega

end Ingest
