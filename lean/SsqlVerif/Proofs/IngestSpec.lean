/-
Helper lemmas for C19, part 6: the model's reachable states satisfy the declarative
`IngestSpec` (the predicate the driver evaluates on the implementation's observables).
Core Lean only.
-/
import SsqlVerif.Proofs.IngestOrder
import SsqlVerif.Spec.Ingest
set_option autoImplicit false
set_option linter.unusedVariables false
set_option linter.unusedSimpArgs false

namespace Ingest

def pairOf (r : Row) : IngestSpec.Row := (r.prod, r.seq)

def kfgOf (c : Cfg) : IngestSpec.Kfg :=
  { block := c.strat == .block, timeout := c.timeout, cap0 := c.cap0, maxCap := c.maxCap }

/-- what an outside observer sees of a model state -/
def observe (s : State) : IngestSpec.Obs :=
  { calls := (entered s).map pairOf,
    rets := (s.processed ++ s.dropped ++ s.exits ++ s.chans.flatMap (·.buf)).map pairOf,
    procs := s.processed.map pairOf,
    input := s.input, dropped := s.dropped.length, len := curLen s, cap := curCap s, stopped := s.stopped }

theorem pairOf_inj (a b : Row) (h : pairOf a = pairOf b) : a = b := by
  cases a; cases b; simp [pairOf] at h; simp [h]

theorem nodupB_of_nodup : ∀ (l : List IngestSpec.Row), l.Nodup → IngestSpec.nodupB l = true := by
  intro l
  induction l with
  | nil => intro _; rfl
  | cons x xs ih =>
    intro h
    have h' := List.nodup_cons.mp h
    simp only [IngestSpec.nodupB, Bool.and_eq_true, Bool.not_eq_true']
    refine ⟨?_, ih h'.2⟩
    cases hc : xs.contains x with
    | false => rfl
    | true => exact absurd (List.contains_iff_mem.mp hc) h'.1

theorem increasing_of_pairwise : ∀ (l : List Nat), List.Pairwise (· < ·) l → IngestSpec.increasing l = true := by
  intro l
  induction l with
  | nil => intro _; rfl
  | cons a rest ih =>
    intro h
    cases rest with
    | nil => rfl
    | cons b r =>
      have h' := List.pairwise_cons.mp h
      simp only [IngestSpec.increasing, Bool.and_eq_true, decide_eq_true_eq]
      exact ⟨h'.1 b (by simp), ih h'.2⟩

theorem seqsOf_map (p : Nat) (l : List Row) : IngestSpec.seqsOf p (l.map pairOf) = seqsOf p l := by
  induction l with
  | nil => rfl
  | cons a rest ih =>
    simp only [IngestSpec.seqsOf, seqsOf, List.map_cons, List.filter_cons] at ih ⊢
    by_cases h : a.prod = p
    · simp [pairOf, h] at ih ⊢; exact ih
    · simp [pairOf, h] at ih ⊢; exact ih

theorem nodup_map_pairOf : ∀ (l : List Row), l.Nodup → (l.map pairOf).Nodup := by
  intro l
  induction l with
  | nil => intro _; simp
  | cons a rest ih =>
    intro h
    have h' := List.nodup_cons.mp h
    rw [List.map_cons, List.nodup_cons]
    refine ⟨?_, ih h'.2⟩
    intro hm
    obtain ⟨x, hx, hxe⟩ := List.mem_map.mp hm
    have := pairOf_inj x a hxe
    subst this
    exact h'.1 hx

theorem curLen_le (s : State) : curLen s ≤ (s.chans.flatMap (·.buf)).length := by
  have key : ∀ (cs : List Chan) (k : Nat) (ch : Chan), cs[k]? = some ch → ch.buf.length ≤ (cs.flatMap (·.buf)).length := by
    intro cs
    induction cs with
    | nil => intro k ch h; simp at h
    | cons a rest ih =>
      intro k ch h
      cases k with
      | zero => simp at h; subst h; simp only [List.flatMap_cons, List.length_append]; omega
      | succ k' =>
        simp at h
        have := ih k' ch h
        simp only [List.flatMap_cons, List.length_append]; omega
  unfold curLen
  split
  · exact Nat.zero_le _
  · split
    · rename_i ch hch; exact key s.chans _ ch hch
    · exact Nat.zero_le _

theorem spec_holds (c : Cfg) (n : Nat) (s : State) (h : Reach c n s) (hcl : c.consLock = true)
    (hmig : s.mig = none) : IngestSpec.holds (kfgOf c) (observe s) = true := by
  obtain ⟨hinv, hci, hord⟩ := all_reach c n s h
  have hperm := perm_of_cons s hci.1
  have hlen := hperm.length_eq
  have hnd := accounted_nodup c s hinv hci.1
  have hin := input_entered s hci
  simp only [IngestSpec.holds, IngestSpec.clauses, List.all_cons, List.all_nil, Bool.and_true, Bool.and_eq_true]
  refine ⟨?_, ?_, ?_, ?_, ?_, ?_, ?_⟩
  · -- once-only
    simp only [IngestSpec.onceOnly, observe, Bool.and_eq_true]
    constructor
    · apply nodupB_of_nodup
      have hp : s.processed.Nodup := by
        have : s.processed.Sublist (accounted s) := by
          simp only [accounted, List.append_assoc]; exact List.sublist_append_left _ _
        exact this.nodup hnd
      exact nodup_map_pairOf _ hp
    · simp only [IngestSpec.subsetB, List.all_eq_true]
      intro r hr
      obtain ⟨x, hx, rfl⟩ := List.mem_map.mp hr
      apply List.contains_iff_mem.mpr
      apply List.mem_map.mpr
      refine ⟨x, ?_, rfl⟩
      apply hperm.mem_iff.mp
      simp [accounted, hx]
  · -- order
    simp only [IngestSpec.ordered, observe, List.all_eq_true]
    intro r _
    rw [seqsOf_map]
    exact increasing_of_pairwise _ (processed_sorted s (hord hcl) r.1)
  · -- counted
    simp only [IngestSpec.counted, observe, Bool.and_eq_true, beq_iff_eq, decide_eq_true_eq, List.length_map]
    refine ⟨hin, ?_⟩
    have := curLen_le s
    rw [← hlen]
    simp only [accounted, List.length_append]; omega
  · -- accounted
    simp only [IngestSpec.accounted, observe, Bool.or_eq_true, decide_eq_true_eq, List.length_map]
    cases hst : s.stopped with
    | true => exact Or.inl rfl
    | false =>
      right
      have hex := exits_nil c s hinv hst
      have hbuf := buffered_cur c s hinv hst hmig
      simp only [hex, List.length_append, List.length_nil]; omega
  · -- conserved
    simp only [IngestSpec.conserved, observe, Bool.or_eq_true, Bool.not_eq_true', Bool.and_eq_false_iff,
      beq_iff_eq, List.length_map, beq_eq_false_iff_ne]
    cases hst : s.stopped with
    | true => exact Or.inl (Or.inl rfl)
    | false =>
      have hex := exits_nil c s hinv hst
      have hbuf := buffered_cur c s hinv hst hmig
      by_cases h1 : (s.processed ++ s.dropped ++ s.exits ++ s.chans.flatMap (·.buf)).length = (entered s).length
      · by_cases h2 : curLen s = 0
        · right
          simp only [hex, List.length_append, List.length_nil] at h1
          omega
        · exact Or.inl (Or.inr (Or.inr h2))
      · exact Or.inl (Or.inr (Or.inl h1))
  · -- block never drops
    simp only [IngestSpec.blockNeverDrops, kfgOf, observe, Bool.or_eq_true, Bool.not_eq_true', Bool.and_eq_false_iff,
      beq_iff_eq, beq_eq_false_iff_ne, Bool.not_eq_false]
    by_cases hb : c.strat = .block
    · cases ht : c.timeout with
      | true => exact Or.inl (Or.inr rfl)
      | false =>
        right
        rw [hinv.core.noDrop hb ht]; rfl
    · exact Or.inl (Or.inl hb)
  · -- capacity
    simp only [IngestSpec.capBounded, kfgOf, observe, Bool.and_eq_true, Bool.or_eq_true, beq_iff_eq, decide_eq_true_eq]
    constructor
    · by_cases hm : c.maxCap = 0
      · exact Or.inl hm
      · right
        cases hc : s.curCh with
        | none => simp [curCap, hc]
        | some k =>
          cases hch : s.chans[k]? with
          | none => simp [curCap, hc, hch]
          | some ch =>
            have := hinv.core.capsMax (Nat.pos_of_ne_zero hm) ch (List.mem_of_getElem? hch)
            simpa [curCap, hc, hch] using this
    · cases hst : s.stopped with
      | true => exact Or.inl rfl
      | false =>
        right
        cases hc : s.curCh with
        | none =>
          have := hinv.core.flags.2.1 hc
          rw [hst] at this; simp at this
        | some k =>
          have hk := hinv.core.curLast hmig k hc
          have hlt : k < s.chans.length := by omega
          have := hinv.core.capsMin _ (List.getElem_mem hlt)
          simp only [curCap, hc]
          rw [List.getElem?_eq_getElem hlt]
          simpa using this

end Ingest
