/-
C03 helper lemmas: the whole run of one aggregator object (`Agg.run`) against the definition
(`AggSpec.value`), and permutation invariance of `AggSpec.value`.
-/
import SsqlVerif.Proofs.AggLaws
set_option autoImplicit false
set_option linter.unusedSectionVars false

namespace AggProofs
open Agg AggSpec NumOps

variable {ν : Type} [NumOps ν]

/-- aggregates whose definition involves sorting -/
def usesSort : Kind → Bool
  | .median => true
  | .percentile => true
  | _ => false

/-- no law of arithmetic or order is needed for the aggregates that do not sort -/
theorem run_eq_value_nosort (e : Env ν) (prm : Param ν) (k : Kind) (hk : usesSort k = false)
    (l : List (Val ν)) : run e prm k l = value e prm k l := by
  unfold run
  cases k with
  | count =>
    simp only [St.new, count_st_fold, count_fold, St.result, countResult, value, Nat.zero_add]
  | sum => simp only [St.new, sum_st_fold, St.result, sum_run, value]
  | avg => simp only [St.new, avg_st_fold, St.result, avg_run, value]
  | min => simp only [St.new, min_st_fold, St.result, min_run, value]
  | max => simp only [St.new, max_st_fold, St.result, max_run, value]
  | stddev => simp only [St.new, nums_new_fold, St.result, numsResult, stddev_eq, value]
  | stddevs => simp only [St.new, nums_new_fold, St.result, numsResult, stddev_eq, value]
  | var => simp only [St.new, nums_new_fold, St.result, numsResult, var_eq, value]
  | vars => simp only [St.new, nums_new_fold, St.result, numsResult, vars_eq, value]
  | median => simp [usesSort] at hk
  | percentile => simp [usesSort] at hk
  | firstValue => simp only [St.new, first_st_fold, St.result, first_run, value]
  | lastValue =>
    simp only [St.new, last_st_fold, St.result, value, lastOf]
  | nthValue => simp only [St.new, anys_new_fold, St.result, anysResult, nth_eq, value]
  | collect => simp only [St.new, anys_new_fold, St.result, anysResult, value]
  | dedup => simp only [St.new, dedup_st_fold, dedup_fold, St.result, value]
  | mergeAgg => simp only [St.new, anys_new_fold, St.result, anysResult, merge_eq, value]

/-- with a lawful order (no NaN, no ±0 mix) also for median and percentile -/
theorem run_eq_value [LawfulOrd ν] (e : Env ν) (prm : Param ν) (k : Kind) (l : List (Val ν)) :
    run e prm k l = value e prm k l := by
  cases hk : usesSort k with
  | false => exact run_eq_value_nosort e prm k hk l
  | true =>
    unfold run
    cases k with
    | median => simp only [St.new, nums_new_fold, St.result, numsResult, median_eq, value]
    | percentile => simp only [St.new, nums_new_fold, St.result, numsResult, percentile_eq, value]
    | _ => simp [usesSort] at hk

/-- the order-insensitive aggregates -/
def orderInsensitive : Kind → Bool
  | .count | .sum | .avg | .min | .max | .stddev | .stddevs | .var | .vars | .median | .percentile => true
  | _ => false

theorem value_perm [LawfulNum ν] (e : Env ν) (prm : Param ν) (k : Kind) (hk : orderInsensitive k = true)
    {l l' : List (Val ν)} (h : l.Perm l') : value e prm k l = value e prm k l' := by
  have hn := nums_perm e h
  cases k with
  | count => simp only [value, countNonNull_perm h]
  | sum => simp only [value, numOrNull_perm total hn (total_perm hn)]
  | avg => simp only [value, numOrNull_perm average hn (average_perm hn)]
  | min => simp only [value, least_perm hn]
  | max => simp only [value, greatest_perm hn]
  | stddev => simp only [value, sampleStdDev_perm hn]
  | stddevs => simp only [value, sampleStdDev_perm hn]
  | var => simp only [value, populationVariance_perm hn]
  | vars => simp only [value, sampleVariance_perm hn]
  | median => simp only [value, medianOf_perm hn]
  | percentile => simp only [value, percentileOf_perm prm.p hn]
  | firstValue => simp [orderInsensitive] at hk
  | lastValue => simp [orderInsensitive] at hk
  | nthValue => simp [orderInsensitive] at hk
  | collect => simp [orderInsensitive] at hk
  | dedup => simp [orderInsensitive] at hk
  | mergeAgg => simp [orderInsensitive] at hk

/-- NULLs handed to an aggregator object never change a numeric aggregate or count -/
theorem nums_filter_null (e : Env ν) (l : List (Val ν)) :
    nums e (l.filter fun v => !v.isNull) = nums e l := by
  unfold nums
  induction l with
  | nil => rfl
  | cons v l ih =>
    cases v with
    | str s => cases hp : e.parseFloat s <;> simp [toFloat, ih, hp]
    | _ => simp [List.filterMap_cons, toFloat, ih]

theorem countNonNull_filter_null (l : List (Val ν)) :
    countNonNull (l.filter fun v => !v.isNull) = countNonNull l := by
  unfold countNonNull
  rw [List.filter_filter]
  simp

theorem value_filter_null (e : Env ν) (prm : Param ν) (k : Kind) (hk : orderInsensitive k = true)
    (l : List (Val ν)) : value e prm k (l.filter fun v => !v.isNull) = value e prm k l := by
  cases k <;> first
    | (simp [orderInsensitive] at hk; done)
    | (simp only [value, nums_filter_null, countNonNull_filter_null])

/-- an aggregator object ignores the NULLs handed to it, for the order-insensitive aggregates
(every number type, float64 included) -/
theorem run_filter_null (e : Env ν) (prm : Param ν) (k : Kind) (hk : orderInsensitive k = true)
    (l : List (Val ν)) : run e prm k (l.filter fun v => !v.isNull) = run e prm k l := by
  unfold run
  cases k <;> first
    | (simp [orderInsensitive] at hk; done)
    | (simp only [St.new, nums_new_fold, nums_filter_null]; done)
    | (simp only [St.new, sum_st_fold, sum_fold, nums_filter_null]; done)
    | (simp only [St.new, avg_st_fold, avg_fold, nums_filter_null]; done)
    | (simp only [St.new, min_st_fold, min_fold, nums_filter_null]; done)
    | (simp only [St.new, max_st_fold, max_fold, nums_filter_null]; done)
    | (simp only [St.new, count_st_fold, count_fold, countNonNull_filter_null]; done)

/-- no usable input: sum, avg, min, max are NULL -/
theorem value_no_input (e : Env ν) (prm : Param ν) (l : List (Val ν)) (h : nums e l = []) :
    value e prm .sum l = .one .null ∧ value e prm .avg l = .one .null ∧
    value e prm .min l = .one .null ∧ value e prm .max l = .one .null := by
  simp [value, h, numOrNull, least, greatest, optNum]

theorem count_no_input (e : Env ν) (prm : Param ν) (l : List (Val ν)) (h : ∀ v ∈ l, v.isNull = true) :
    value e prm .count l = .one (.flt (ofNat 0)) := by
  have : countNonNull l = 0 := by
    unfold countNonNull
    rw [List.length_eq_zero_iff, List.filter_eq_nil_iff]
    intro v hv; simp [h v hv]
  simp [value, this]

end AggProofs
