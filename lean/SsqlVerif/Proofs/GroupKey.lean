/-
Injectivity of the repaired key encoders (helper lemmas for C04 / C09 / C16).
Escaping scheme: unique left-to-right decoding, shown as a cancellation lemma.
Length-prefix scheme: prefix code (digits, ':', payload, terminator).
-/
import SsqlVerif.Model.GroupKey
set_option autoImplicit false

namespace GroupKey
section Esc
variable {α : Type} [DecidableEq α] (esc sep nul : α)

/-- what may follow a cell inside a joined key: nothing, or a separator -/
def Stop (r : List α) : Prop := r = [] ∨ ∃ r', r = sep :: r'

theorem special_iff (c : α) : special esc sep c = true ↔ c = esc ∨ c = sep := by
  simp [special]

theorem special_false (c : α) : special esc sep c = false ↔ c ≠ esc ∧ c ≠ sep := by
  simp [special]

/-- a non-empty escaped value followed by anything never starts with a bare separator
and is not empty -/
theorem escStr_cons_not_stop (hes : esc ≠ sep) (c : α) (cs r : List α) :
    ¬ Stop sep (escStr esc sep (c :: cs) ++ r) := by
  intro h
  unfold escStr at h
  by_cases hc : special esc sep c = true
  · rw [if_pos hc] at h
    rcases h with h | ⟨r', h⟩
    · simp at h
    · simp at h; exact hes h.1
  · rw [if_neg hc] at h
    have hc' := (special_false esc sep c).1 (by simpa using hc)
    rcases h with h | ⟨r', h⟩
    · simp at h
    · simp at h; exact hc'.2 h.1

theorem escStr_cancel (hes : esc ≠ sep) : ∀ (s t r r' : List α), Stop sep r → Stop sep r' →
    escStr esc sep s ++ r = escStr esc sep t ++ r' → s = t ∧ r = r' := by
  intro s
  induction s with
  | nil =>
    intro t r r' hr hr' h
    cases t with
    | nil => exact ⟨rfl, by simpa [escStr] using h⟩
    | cons d ds =>
      exfalso
      have : Stop sep (escStr esc sep (d :: ds) ++ r') := by
        have h' : r = escStr esc sep (d :: ds) ++ r' := by simpa [escStr] using h
        rw [← h']; exact hr
      exact escStr_cons_not_stop esc sep hes d ds r' this
  | cons c cs ih =>
    intro t r r' hr hr' h
    cases t with
    | nil =>
      exfalso
      have : Stop sep (escStr esc sep (c :: cs) ++ r) := by
        have h' : escStr esc sep (c :: cs) ++ r = r' := by simpa [escStr] using h
        rw [h']; exact hr'
      exact escStr_cons_not_stop esc sep hes c cs r this
    | cons d ds =>
      by_cases hc : special esc sep c = true
      · by_cases hd : special esc sep d = true
        · simp only [escStr, if_pos hc, if_pos hd, List.cons_append, List.cons.injEq, true_and] at h
          obtain ⟨hcd, hrest⟩ := h
          obtain ⟨h1, h2⟩ := ih ds r r' hr hr' hrest
          exact ⟨by rw [hcd, h1], h2⟩
        · simp only [escStr, if_pos hc, if_neg hd, List.cons_append, List.cons.injEq] at h
          have hd' := (special_false esc sep d).1 (by simpa using hd)
          exact absurd h.1.symm hd'.1
      · by_cases hd : special esc sep d = true
        · simp only [escStr, if_neg hc, if_pos hd, List.cons_append, List.cons.injEq] at h
          have hc' := (special_false esc sep c).1 (by simpa using hc)
          exact absurd h.1 hc'.1
        · simp only [escStr, if_neg hc, if_neg hd, List.cons_append, List.cons.injEq] at h
          obtain ⟨hcd, hrest⟩ := h
          obtain ⟨h1, h2⟩ := ih ds r r' hr hr' hrest
          exact ⟨by rw [hcd, h1], h2⟩

/-- the NULL token is not the escaped text of any string -/
theorem escCell_null_ne (hes : esc ≠ sep) (hne : nul ≠ esc) (hns : nul ≠ sep) (t r r' : List α)
    (hr' : Stop sep r') : [esc, nul] ++ r ≠ escStr esc sep t ++ r' := by
  intro h
  cases t with
  | nil =>
    simp only [escStr, List.nil_append, List.cons_append] at h
    rcases hr' with h' | ⟨r0, h'⟩
    · rw [h'] at h; simp at h
    · rw [h'] at h; simp at h; exact hes h.1
  | cons d ds =>
    by_cases hd : special esc sep d = true
    · simp only [escStr, if_pos hd, List.cons_append, List.cons.injEq, true_and, List.nil_append] at h
      have := (special_iff esc sep d).1 hd
      rcases this with h1 | h1
      · exact hne (h.1.trans h1)
      · exact hns (h.1.trans h1)
    · simp only [escStr, if_neg hd, List.cons_append, List.cons.injEq, List.nil_append] at h
      have hd' := (special_false esc sep d).1 (by simpa using hd)
      exact hd'.1 h.1.symm

theorem escCell_cancel (hes : esc ≠ sep) (hne : nul ≠ esc) (hns : nul ≠ sep)
    (c d : Option (List α)) (r r' : List α) (hr : Stop sep r) (hr' : Stop sep r')
    (h : escCell esc sep nul c ++ r = escCell esc sep nul d ++ r') : c = d ∧ r = r' := by
  cases c with
  | none =>
    cases d with
    | none => simpa [escCell] using h
    | some t => exact absurd h (escCell_null_ne esc sep nul hes hne hns t r r' hr')
  | some s =>
    cases d with
    | none => exact absurd h.symm (escCell_null_ne esc sep nul hes hne hns s r' r hr)
    | some t =>
      obtain ⟨h1, h2⟩ := escStr_cancel esc sep hes s t r r' hr hr' h
      exact ⟨by rw [h1], h2⟩

theorem escTail_stop (cs : List (Option (List α))) : Stop sep (escTail esc sep nul cs) := by
  cases cs with
  | nil => exact Or.inl rfl
  | cons c cs => exact Or.inr ⟨_, rfl⟩

theorem escTail_injective (hes : esc ≠ sep) (hne : nul ≠ esc) (hns : nul ≠ sep) :
    ∀ (xs ys : List (Option (List α))), xs.length = ys.length →
      escTail esc sep nul xs = escTail esc sep nul ys → xs = ys := by
  intro xs
  induction xs with
  | nil => intro ys hl _; cases ys with
    | nil => rfl
    | cons y ys => simp at hl
  | cons x xs ih =>
    intro ys hl h
    cases ys with
    | nil => simp at hl
    | cons y ys =>
      simp only [escTail, List.cons.injEq, true_and] at h
      obtain ⟨h1, h2⟩ := escCell_cancel esc sep nul hes hne hns x y _ _
        (escTail_stop esc sep nul xs) (escTail_stop esc sep nul ys) h
      rw [h1, ih ys (by simpa using hl) h2]

/-- **escaping scheme**: tuples of equal arity with equal keys are equal — for all symbol strings,
including those that contain the separator, the escape symbol, or look like the NULL token -/
theorem escJoin_injective (hes : esc ≠ sep) (hne : nul ≠ esc) (hns : nul ≠ sep)
    (xs ys : List (Option (List α))) (hl : xs.length = ys.length)
    (h : escJoin esc sep nul xs = escJoin esc sep nul ys) : xs = ys := by
  cases xs with
  | nil => cases ys with
    | nil => rfl
    | cons y ys => simp at hl
  | cons x xs =>
    cases ys with
    | nil => simp at hl
    | cons y ys =>
      simp only [escJoin] at h
      obtain ⟨h1, h2⟩ := escCell_cancel esc sep nul hes hne hns x y _ _
        (escTail_stop esc sep nul xs) (escTail_stop esc sep nul ys) h
      rw [h1, escTail_injective esc sep nul hes hne hns xs ys (by simpa using hl) h2]

end Esc

/-! ### instances -/

theorem encBar_injective (xs ys : List (Option Str)) (hl : xs.length = ys.length)
    (h : encBar xs = encBar ys) : xs = ys :=
  escJoin_injective barEsc barSep barNul (by decide) (by decide) (by decide) xs ys hl h

theorem encWindow_injective (noKeys : Str) (xs ys : List (Option Str)) (hl : xs.length = ys.length)
    (h : encWindow noKeys xs = encWindow noKeys ys) : xs = ys := by
  cases xs with
  | nil => cases ys with
    | nil => rfl
    | cons y ys => simp at hl
  | cons x xs =>
    cases ys with
    | nil => simp at hl
    | cons y ys => exact encBar_injective _ _ hl h

theorem map_some_injective {β : Type} : ∀ (xs ys : List β), xs.map some = ys.map some → xs = ys := by
  intro xs
  induction xs with
  | nil => intro ys h; cases ys with
    | nil => rfl
    | cons y ys => simp at h
  | cons x xs ih => intro ys h; cases ys with
    | nil => simp at h
    | cons y ys =>
      simp only [List.map_cons, List.cons.injEq, Option.some.injEq] at h
      rw [h.1, ih ys h.2]

theorem encJoin_injective (xs ys : List Str) (hl : xs.length = ys.length)
    (h : encJoin xs = encJoin ys) : xs = ys := by
  apply map_some_injective
  exact escJoin_injective barEsc joinSep barNul (by decide) (by decide) (by decide) _ _
    (by simpa using hl) h

/-! ### length-prefix scheme (aggregator) -/

/-- split off the leading decimal digits -/
def spanDigits : List Char → List Char × List Char
  | [] => ([], [])
  | c :: cs => if c.isDigit then ((c :: (spanDigits cs).1), (spanDigits cs).2) else ([], c :: cs)

theorem spanDigits_append (ds : List Char) (hd : ∀ c ∈ ds, c.isDigit = true) (c : Char)
    (hc : c.isDigit = false) (r : List Char) : spanDigits (ds ++ c :: r) = (ds, c :: r) := by
  induction ds with
  | nil => simp [spanDigits, hc]
  | cons d ds ih =>
    have h1 : d.isDigit = true := hd d (by simp)
    have h2 := ih (fun c hc' => hd c (by simp [hc']))
    simp [spanDigits, h1, h2]

/-- decoder of one non-NULL cell: digits, ':', `n` payload symbols, one terminator symbol -/
def decCell (l : List Char) : Option (List Char × List Char) :=
  match (spanDigits l).2 with
  | ':' :: r' =>
    if Nat.ofDigitChars 10 (spanDigits l).1 0 + 1 ≤ r'.length
    then some (r'.take (Nat.ofDigitChars 10 (spanDigits l).1 0), r'.drop (Nat.ofDigitChars 10 (spanDigits l).1 0 + 1))
    else none
  | _ => none

theorem toDigits_isDigit (n : Nat) : ∀ c ∈ Nat.toDigits 10 n, c.isDigit = true := fun _ hc =>
  Nat.isDigit_of_mem_toDigits (by decide) (by decide) hc

theorem decCell_aggCell (s r : List Char) : decCell (aggCell (some s) ++ r) = some (s, r) := by
  unfold decCell aggCell aggSep
  have : Nat.toDigits 10 s.length ++ ':' :: (s ++ [Char.ofNat 0x1f]) ++ r
       = Nat.toDigits 10 s.length ++ ':' :: (s ++ Char.ofNat 0x1f :: r) := by simp
  rw [this, spanDigits_append _ (toDigits_isDigit _) ':' (by decide)]
  simp [Nat.ofDigitChars_toDigits]

theorem toDigits_ne_nil (n : Nat) : Nat.toDigits 10 n ≠ [] := by
  intro h
  have := Nat.ofDigitChars_toDigits (b := 10) (n := n) (by decide) (by decide)
  rw [h] at this
  cases n with
  | zero => exact absurd h (by decide)
  | succ m => simp [Nat.ofDigitChars] at this

/-- the first symbol of a non-NULL cell is a digit, of the NULL cell it is NUL -/
theorem aggCell_some_head (s r : List Char) : ∃ c rest, aggCell (some s) ++ r = c :: rest ∧ c.isDigit = true := by
  unfold aggCell
  cases h : Nat.toDigits 10 s.length with
  | nil => exact absurd h (toDigits_ne_nil _)
  | cons c cs =>
    refine ⟨c, cs ++ ':' :: (s ++ aggSep) ++ r, by simp only [h]; simp, ?_⟩
    exact toDigits_isDigit s.length c (by rw [h]; simp)

theorem aggCell_cancel (c d : Option Str) (r r' : List Char)
    (h : aggCell c ++ r = aggCell d ++ r') : c = d ∧ r = r' := by
  cases c with
  | none =>
    cases d with
    | none => simpa [aggCell] using h
    | some t =>
      obtain ⟨x, rest, hx, hdig⟩ := aggCell_some_head t r'
      rw [hx] at h
      simp only [aggCell, aggNull, List.cons_append, List.cons.injEq] at h
      rw [← h.1] at hdig
      exact absurd hdig (by decide)
  | some s =>
    cases d with
    | none =>
      obtain ⟨x, rest, hx, hdig⟩ := aggCell_some_head s r
      rw [hx] at h
      simp only [aggCell, aggNull, List.cons_append, List.cons.injEq] at h
      rw [h.1] at hdig
      exact absurd hdig (by decide)
    | some t =>
      have h1 := decCell_aggCell s r
      rw [h, decCell_aggCell] at h1
      simp only [Option.some.injEq, Prod.mk.injEq] at h1
      exact ⟨by rw [h1.1], h1.2.symm⟩

theorem aggCell_ne_nil (c : Option Str) (r : List Char) : aggCell c ++ r ≠ [] := by
  cases c with
  | none => simp [aggCell, aggNull]
  | some s =>
    obtain ⟨x, rest, hx, _⟩ := aggCell_some_head s r
    rw [hx]; simp

/-- **length-prefix scheme**: equal keys, equal tuples — for all byte strings and NULLs, any arity -/
theorem encAgg_injective : ∀ xs ys : List (Option Str), encAgg xs = encAgg ys → xs = ys := by
  intro xs
  induction xs with
  | nil =>
    intro ys h
    cases ys with
    | nil => rfl
    | cons y ys =>
      exfalso
      have : aggCell y ++ encAgg ys = [] := by simpa [encAgg] using h.symm
      exact aggCell_ne_nil _ _ this
  | cons x xs ih =>
    intro ys h
    cases ys with
    | nil =>
      exfalso
      have : aggCell x ++ encAgg xs = [] := by simpa [encAgg] using h
      exact aggCell_ne_nil _ _ this
    | cons y ys =>
      have h' : aggCell x ++ encAgg xs = aggCell y ++ encAgg ys := by simpa [encAgg] using h
      obtain ⟨hxy, hrest⟩ := aggCell_cancel _ _ _ _ h'
      rw [hxy, ih ys hrest]

end GroupKey
