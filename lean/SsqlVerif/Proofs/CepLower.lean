/-
Helper lemmas for C15: lowering the parser's pattern tree (`lower`, mirrors `compileNode`'s folds and
`compilePermute`) preserves the language the user reads off the tree (`Spec.LangN`); in particular
`permutations n` (Go `permutations`) enumerates exactly the orderings of `n` positions.
Core Lean only.
-/
import SsqlVerif.Proofs.CepNfa
set_option autoImplicit false
set_option linter.unusedVariables false
set_option linter.unusedSimpArgs false

namespace Cep
open Spec

/-! ### `permutations` -/

theorem insertAt_perm (x : Nat) (s : List Nat) (i : Nat) : (insertAt x s i).Perm (x :: s) := by
  unfold insertAt
  have h : (s.take i ++ x :: s.drop i).Perm (x :: (s.take i ++ s.drop i)) := List.perm_middle
  rw [List.take_append_drop] at h
  exact h

theorem mem_permutations : ∀ (n : Nat) (σ : List Nat), σ ∈ permutations n ↔ σ.Perm (List.range n)
  | 0, σ => by
    simp only [permutations, List.mem_singleton, List.range_zero]
    constructor
    · rintro rfl; exact List.Perm.refl _
    · intro h; exact h.eq_nil
  | n+1, σ => by
    simp only [permutations, List.mem_flatMap, List.mem_map, List.mem_range]
    constructor
    · rintro ⟨s, hs, i, _, rfl⟩
      have h1 := (mem_permutations n s).1 hs
      refine (insertAt_perm n s i).trans ?_
      rw [List.range_succ]
      exact (List.Perm.cons n h1).trans (List.perm_append_singleton n (List.range n)).symm
    · intro h
      have hn : n ∈ σ := h.symm.subset (by simp [List.mem_range])
      obtain ⟨l1, l2, rfl⟩ := List.append_of_mem hn
      have h2 : (l1 ++ l2).Perm (List.range n) := by
        have h3 : (n :: (l1 ++ l2)).Perm (n :: List.range n) := by
          refine List.perm_middle.symm.trans (h.trans ?_)
          rw [List.range_succ]
          exact List.perm_append_singleton n (List.range n)
        exact List.Perm.cons_inv h3
      refine ⟨l1 ++ l2, (mem_permutations n _).2 h2, l1.length, by simp; omega, ?_⟩
      unfold insertAt
      simp

theorem permutations_ne_nil (n : Nat) : permutations n ≠ [] := by
  intro h
  have := (mem_permutations n (List.range n)).2 (List.Perm.refl _)
  rw [h] at this; cases this

/-! ### the folds -/

theorem lang_seqOf : ∀ (ps : List Pat) (w : List Sym), Lang (seqOf ps) w ↔ ConcatL (ps.map Lang) w
  | [], w => by simp [seqOf, Lang, ConcatL]
  | [p], w => by
    simp only [seqOf, List.map_cons, List.map_nil, ConcatL]
    constructor
    · intro h; exact ⟨w, [], by simp, h, rfl⟩
    · rintro ⟨u, v, rfl, hu, rfl⟩; simpa using hu
  | p :: q :: ps, w => by
    simp only [seqOf, Lang, List.map_cons, ConcatL]
    constructor
    · rintro ⟨u, v, rfl, hu, hv⟩
      exact ⟨u, v, rfl, hu, by simpa [ConcatL] using (lang_seqOf (q :: ps) v).1 hv⟩
    · rintro ⟨u, v, rfl, hu, hv⟩
      exact ⟨u, v, rfl, hu, (lang_seqOf (q :: ps) v).2 (by simpa [ConcatL] using hv)⟩

theorem lang_altFold : ∀ (ps : List Pat) (acc : Pat) (w : List Sym),
    Lang (altFold acc ps) w ↔ Lang acc w ∨ AnyL (ps.map Lang) w
  | [], acc, w => by simp [altFold, AnyL]
  | p :: ps, acc, w => by
    simp only [altFold, List.map_cons, AnyL]
    rw [lang_altFold ps (.alt acc p) w]
    simp only [Lang]
    constructor
    · rintro ((h | h) | h)
      · exact Or.inl h
      · exact Or.inr (Or.inl h)
      · exact Or.inr (Or.inr h)
    · rintro (h | h | h)
      · exact Or.inl (Or.inl h)
      · exact Or.inl (Or.inr h)
      · exact Or.inr h

theorem lang_altOf : ∀ (ps : List Pat) (w : List Sym),
    Lang (altOf ps) w ↔ (ps = [] ∧ w = []) ∨ AnyL (ps.map Lang) w
  | [], w => by simp [altOf, Lang, AnyL]
  | p :: ps, w => by
    simp only [altOf, List.map_cons, AnyL]
    rw [lang_altFold]
    simp

theorem anyL_map {α : Type} (f : α → List Sym → Prop) : ∀ (l : List α) (w : List Sym),
    AnyL (l.map f) w ↔ ∃ x ∈ l, f x w
  | [], w => by simp [AnyL]
  | x :: xs, w => by
    simp only [List.map_cons, AnyL, List.mem_cons]
    rw [anyL_map f xs w]
    constructor
    · rintro (h | ⟨y, hy, h⟩)
      · exact ⟨x, Or.inl rfl, h⟩
      · exact ⟨y, Or.inr hy, h⟩
    · rintro ⟨y, (rfl | hy), h⟩
      · exact Or.inl h
      · exact Or.inr ⟨y, hy, h⟩

theorem lang_permAlt (ps : List Pat) (w : List Sym) :
    Lang (permAlt ps) w ↔ ∃ σ : List Nat, σ.Perm (List.range ps.length) ∧
      ConcatL (σ.map fun i => Lang (ps.getD i .empty)) w := by
  unfold permAlt
  rw [lang_altOf]
  have hne : (permutations ps.length).map (fun perm => seqOf (perm.map fun i => ps.getD i .empty)) ≠ [] := by
    intro h
    exact permutations_ne_nil ps.length (List.map_eq_nil_iff.1 h)
  constructor
  · rintro (⟨h, _⟩ | h)
    · exact absurd h hne
    · rw [List.map_map, anyL_map] at h
      obtain ⟨σ, hσ, hw⟩ := h
      refine ⟨σ, (mem_permutations _ σ).1 hσ, ?_⟩
      have := (lang_seqOf _ w).1 hw
      simpa [List.map_map, Function.comp_def] using this
  · rintro ⟨σ, hσ, hw⟩
    refine Or.inr ?_
    rw [List.map_map, anyL_map]
    refine ⟨σ, (mem_permutations _ σ).2 hσ, ?_⟩
    refine (lang_seqOf _ w).2 ?_
    simpa [List.map_map, Function.comp_def] using hw

/-! ### languages up to pointwise equivalence -/

/-- two lists of languages, pointwise equivalent -/
inductive RelL : List (List Sym → Prop) → List (List Sym → Prop) → Prop
  | nil : RelL [] []
  | cons {L M : List Sym → Prop} {Ls Ms : List (List Sym → Prop)} : (∀ w, L w ↔ M w) → RelL Ls Ms → RelL (L :: Ls) (M :: Ms)

theorem RelL.concat {Ls Ms : List (List Sym → Prop)} (h : RelL Ls Ms) : ∀ w, ConcatL Ls w ↔ ConcatL Ms w := by
  induction h with
  | nil => intro w; exact Iff.rfl
  | cons hL _ ih =>
    intro w
    simp only [ConcatL]
    constructor
    · rintro ⟨u, v, rfl, hu, hv⟩; exact ⟨u, v, rfl, (hL u).1 hu, (ih v).1 hv⟩
    · rintro ⟨u, v, rfl, hu, hv⟩; exact ⟨u, v, rfl, (hL u).2 hu, (ih v).2 hv⟩

theorem RelL.any {Ls Ms : List (List Sym → Prop)} (h : RelL Ls Ms) : ∀ w, AnyL Ls w ↔ AnyL Ms w := by
  induction h with
  | nil => intro w; exact Iff.rfl
  | cons hL _ ih => intro w; simp only [AnyL]; rw [hL w, ih w]

theorem RelL.head {Ls Ms : List (List Sym → Prop)} (h : RelL Ls Ms) : ∀ w, HeadL Ls w ↔ HeadL Ms w := by
  cases h with
  | nil => intro w; exact Iff.rfl
  | cons hL _ => intro w; simp only [HeadL]; exact hL w

theorem RelL.length {Ls Ms : List (List Sym → Prop)} (h : RelL Ls Ms) : Ls.length = Ms.length := by
  induction h with
  | nil => rfl
  | cons _ _ ih => simp [ih]

theorem RelL.getD {Ls Ms : List (List Sym → Prop)} (h : RelL Ls Ms) (d : List Sym → Prop) :
    ∀ (i : Nat) (w : List Sym), Ls.getD i d w ↔ Ms.getD i d w := by
  induction h with
  | nil => intro i w; simp
  | cons hL _ ih =>
    intro i w
    cases i with
    | zero => simpa using hL w
    | succ i => simpa using ih i w

theorem RelL.nil_iff {Ls Ms : List (List Sym → Prop)} (h : RelL Ls Ms) : Ls = [] ↔ Ms = [] := by
  cases h <;> simp

theorem relL_map_perm {Ls Ms : List (List Sym → Prop)} (h : RelL Ls Ms) (d : List Sym → Prop) (σ : List Nat) :
    RelL (σ.map fun i => Ls.getD i d) (σ.map fun i => Ms.getD i d) := by
  induction σ with
  | nil => exact RelL.nil
  | cons i σ ih => exact RelL.cons (h.getD d i) ih

theorem pow_congr {L M : List Sym → Prop} (h : ∀ w, L w ↔ M w) : ∀ (n : Nat) (w : List Sym), Spec.Pow L n w ↔ Spec.Pow M n w
  | 0, w => Iff.rfl
  | n+1, w => by
    simp only [Spec.Pow]
    constructor
    · rintro ⟨u, v, rfl, hu, hv⟩; exact ⟨u, v, rfl, (h u).1 hu, (pow_congr h n v).1 hv⟩
    · rintro ⟨u, v, rfl, hu, hv⟩; exact ⟨u, v, rfl, (h u).2 hu, (pow_congr h n v).2 hv⟩

theorem relL_map_lang_getD (ps : List Pat) (Ms : List (List Sym → Prop)) (h : RelL (ps.map Lang) Ms) (σ : List Nat) :
    RelL (σ.map fun i => Lang (ps.getD i .empty)) (σ.map fun i => Ms.getD i (fun w => w = [])) := by
  induction σ with
  | nil => exact RelL.nil
  | cons i σ ih =>
    refine RelL.cons ?_ ih
    intro w
    show Lang (ps.getD i .empty) w ↔ Ms.getD i (fun w => w = []) w
    have := h.getD (fun w => w = []) i w
    rw [← this]
    simp only [List.getD_eq_getElem?_getD, List.getElem?_map]
    cases ps[i]? with
    | none => simp [Lang]
    | some p => simp

/-! ### `lower` preserves the language -/

theorem langNs_length : ∀ (cs : List PNode), (LangNs cs).length = cs.length
  | [] => rfl
  | c :: cs => by simp [LangNs, langNs_length cs]

mutual
theorem lower_lang : ∀ (n : PNode) (p : Pat), lower n = .ok p → ∀ w, Lang p w ↔ LangN n w
  | .lit a, p, h => by simp only [lower] at h; cases h; intro w; simp [Lang, LangN]
  | .seq cs, p, h => by
    simp only [lower] at h
    obtain ⟨ps, hps, rfl⟩ := except_map_ok h
    intro w
    rw [lang_seqOf, LangN]
    exact (lowerList_lang cs ps hps).concat w
  | .alt cs, p, h => by
    simp only [lower] at h
    obtain ⟨ps, hps, rfl⟩ := except_map_ok h
    intro w
    have hr := lowerList_lang cs ps hps
    rw [lang_altOf, LangN, hr.any w]
    have hnil : ps = [] ↔ cs = [] := by
      have h1 := hr.nil_iff
      simp only [List.map_eq_nil_iff] at h1
      rw [h1]
      cases cs <;> simp [LangNs]
    rw [hnil]
  | .group cs, p, h => by
    simp only [lower] at h
    intro w
    rw [LangN]
    exact lowerHead_lang cs p h w
  | .rep c mn mx g, p, h => by
    simp only [lower] at h
    intro w
    simp only [LangN]
    split at h
    · cases h
    · next hmn =>
      split at h
      · next h0 =>
        cases h
        obtain ⟨rfl, rfl⟩ := h0
        simp only [Lang]
        constructor
        · rintro rfl; exact ⟨0, by simp, by simp, rfl⟩
        · rintro ⟨n, _, hn, hp⟩
          have : n = 0 := by have := hn (by omega); omega
          subst this; exact hp
      · next h0 =>
        split at h
        · cases h
        · next q hq =>
          have ih := lower_lang c q hq
          split at h
          · next hmx =>
            cases h
            simp only [Lang]
            constructor
            · rintro ⟨n, hn, _, hp⟩
              exact ⟨n, by omega, by omega, (pow_congr ih n w).1 hp⟩
            · rintro ⟨n, hn, _, hp⟩
              exact ⟨n, by omega, (by intro m hm; cases hm), (pow_congr ih n w).2 hp⟩
          · next hmx =>
            split at h
            · cases h
            · cases h
              simp only [Lang]
              constructor
              · rintro ⟨n, hn, hm, hp⟩
                have := hm _ rfl
                exact ⟨n, by omega, by omega, (pow_congr ih n w).1 hp⟩
              · rintro ⟨n, hn, hm, hp⟩
                exact ⟨n, by omega, (by intro m hm'; cases hm'; have := hm (by omega); omega), (pow_congr ih n w).2 hp⟩
  | .permute cs, p, h => by
    simp only [lower] at h
    split at h
    · cases h
    · obtain ⟨ps, hps, rfl⟩ := except_map_ok h
      intro w
      have hr := lowerList_lang cs ps hps
      have hlen : ps.length = cs.length := by
        have := hr.length
        simp only [List.length_map] at this
        rw [this]
        exact langNs_length cs
      rw [lang_permAlt, LangN, hlen]
      constructor
      · rintro ⟨σ, hσ, hw⟩
        exact ⟨σ, hσ, (relL_map_lang_getD ps _ hr σ).concat w |>.1 hw⟩
      · rintro ⟨σ, hσ, hw⟩
        exact ⟨σ, hσ, (relL_map_lang_getD ps _ hr σ).concat w |>.2 hw⟩
  | .exclusion, p, h => by simp only [lower] at h; cases h
theorem lowerList_lang : ∀ (cs : List PNode) (ps : List Pat), lowerList cs = .ok ps → RelL (ps.map Lang) (LangNs cs)
  | [], ps, h => by simp only [lowerList] at h; cases h; exact RelL.nil
  | c :: cs, ps, h => by
    simp only [lowerList] at h
    split at h
    · next q qs hq hqs =>
      cases h
      simp only [List.map_cons, LangNs]
      exact RelL.cons (lower_lang c q hq) (lowerList_lang cs qs hqs)
    · cases h
    · cases h
theorem lowerHead_lang : ∀ (cs : List PNode) (p : Pat), lowerHead cs = .ok p → ∀ w, Lang p w ↔ HeadL (LangNs cs) w
  | [], p, h => by simp only [lowerHead] at h; cases h; intro w; simp [Lang, LangNs, HeadL]
  | c :: _, p, h => by
    simp only [lowerHead] at h
    intro w
    simp only [LangNs, HeadL]
    exact lower_lang c p h w
end

end Cep
