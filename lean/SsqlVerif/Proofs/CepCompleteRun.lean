/-
Helper lemmas for C15, completeness direction over a whole history (greedy mode): the coverage
invariants hold for every stored partition, the matches reported for a partition over a history of
rows followed by a final `Flush` decide every admitted accepting run, and every valid match in the
sense of the spec is such a run.
Core Lean only.
-/
import SsqlVerif.Proofs.CepComplete
set_option autoImplicit false
set_option linter.unusedVariables false
set_option linter.unusedSimpArgs false
set_option linter.unusedSectionVars false

namespace Cep
open Spec
section
variable {κ ρ : Type} [DecidableEq κ]

structure ECov (c : Cfg ρ) (pre : List (Op κ ρ)) (e : Engine κ ρ) : Prop where
  einv : EInv c pre e
  cov : ∀ x ∈ e.parts, Cov c (histOf x.1 pre) x.2

theorem ECov.init (c : Cfg ρ) : ECov c ([] : List (Op κ ρ)) ({} : Engine κ ρ) :=
  { einv := EInv.init c, cov := fun x h => by cases h }

theorem ECov.getPart {c : Cfg ρ} {pre : List (Op κ ρ)} {e : Engine κ ρ} (h : ECov c pre e) (k : κ) :
    Cov c (histOf k pre) (getPart e k) := by
  by_cases hk : k ∈ keysOf e
  · exact h.cov _ (getPart_mem hk)
  · rw [getPart_absent hk, h.einv.absent k hk]; exact Cov.init c

/-- one row op keeps the coverage invariants -/
theorem step_row_cov {c : Cfg ρ} (hl : c.lazy = false) (hw : 0 ≤ c.within) {pre : List (Op κ ρ)} {e : Engine κ ρ}
    (h : ECov c pre e) (k : κ) (r : ρ) : ECov c (pre ++ [Op.row k r]) (step c e (Op.row k r)).1 := by
  refine { einv := step_inv hw h.einv _, cov := ?_ }
  intro x hx
  simp only [step] at hx
  rcases mem_setPart hx with rfl | ⟨hx, hne⟩
  · have := (stepPart_cov hl hw (h.getPart k) r []).1
    simpa [histOf_snoc_row] using this
  · rw [histOf_snoc_row, if_neg (fun hh => hne hh.symm)]
    exact h.cov x hx

def isRow : Op κ ρ → Bool
  | .row _ _ => true
  | .flush => false

/-- over a history of rows: the reported matches of partition `k` form a `GChain` with respect to
any continuation `x` of `k`'s rows -/
theorem run_rows_gchain {c : Cfg ρ} (hl : c.lazy = false) (hw : 0 ≤ c.within) (k : κ) (x : List ρ) :
    ∀ (ops pre : List (Op κ ρ)) (e : Engine κ ρ), (∀ op ∈ ops, isRow op = true) → ECov c pre e →
      GChain c (histOf k (pre ++ ops) ++ x) (getPart e k).nextStart (outsOf k (run c e ops).2)
        (getPart (run c e ops).1 k).nextStart ∧
      ECov c (pre ++ ops) (run c e ops).1
  | [], pre, e, _, h => by
    simp only [run, outsOf, List.flatten_nil, List.filter_nil, List.map_nil, List.append_nil]
    exact ⟨GChain.nil _, h⟩
  | op :: ops, pre, e, hrows, h => by
    cases op with
    | flush => exact absurd (hrows _ (List.mem_cons_self ..)) (by simp [isRow])
    | row k' r =>
      have h' := step_row_cov hl hw h k' r
      obtain ⟨g, hc⟩ := run_rows_gchain hl hw k x ops (pre ++ [Op.row k' r]) _
        (fun op hop => hrows op (List.mem_cons_of_mem _ hop)) h'
      have hpre : pre ++ Op.row k' r :: ops = (pre ++ [Op.row k' r]) ++ ops := by simp
      rw [run_cons, outsOf_cons, hpre]
      refine ⟨?_, hc⟩
      refine GChain.append ?_ g
      simp only [step]
      by_cases hk : k' = k
      · subst hk
        rw [outsOf_tagKey_self, getPart_setPart_self]
        have := (stepPart_cov hl hw (h.getPart k') r (histOf k' ops ++ x)).2
        rw [histOf_append, histOf_snoc_row, if_pos rfl]
        simpa [List.append_assoc] using this
      · rw [outsOf_tagKey_other hk, getPart_setPart_other e hk]
        exact GChain.nil _

theorem run_append (c : Cfg ρ) : ∀ (a b : List (Op κ ρ)) (e : Engine κ ρ),
    (run c e (a ++ b)).2 = (run c e a).2 ++ (run c (run c e a).1 b).2 ∧
    (run c e (a ++ b)).1 = (run c (run c e a).1 b).1
  | [], b, e => by simp [run]
  | op :: a, b, e => by
    obtain ⟨h1, h2⟩ := run_append c a b (step c e op).1
    simp only [List.cons_append, run_cons]
    exact ⟨by rw [h1], h2⟩

theorem histOf_rows_flush (k : κ) (ops : List (Op κ ρ)) : histOf k (ops ++ [Op.flush]) = histOf k ops :=
  histOf_snoc_flush k ops

/-- **Rows, then Stop.**  Every admitted accepting run of partition `k` is decided by a reported match -/
theorem run_then_flush_covers {c : Cfg ρ} (hl : c.lazy = false) (hw : 0 ≤ c.within) (k : κ)
    (ops : List (Op κ ρ)) (hrows : ∀ op ∈ ops, isRow op = true) :
    ∀ r, Reached c (histOf k ops) r → runAccepting c r = true →
      ∃ m ∈ outsOf k (run c ({} : Engine κ ρ) (ops ++ [Op.flush])).2,
        m.startSeq ≤ r.startSeq ∧ r.startSeq < skipToM c m.startSeq m.rows ∧
        (r.startSeq = m.startSeq → r.hist.length ≤ m.rows.length) := by
  intro r hr hacc
  obtain ⟨g, hc⟩ := run_rows_gchain hl hw k [] ops [] ({} : Engine κ ρ) hrows (ECov.init c)
  simp only [List.nil_append, List.append_nil] at g hc
  obtain ⟨hout, _⟩ := run_append c ops [Op.flush] ({} : Engine κ ρ)
  have hfl : outsOf k (run c (run c ({} : Engine κ ρ) ops).1 [Op.flush]).2 =
      (flushPart c (getPart (run c ({} : Engine κ ρ) ops).1 k)).2 := by
    simp only [run, consOut, step]
    exact outsOf_flushAll c k _ hc.einv.nodup
  obtain ⟨g2, hnone⟩ := flushPart_cov hl (hc.getPart k)
  have hall : outsOf k (run c ({} : Engine κ ρ) (ops ++ [Op.flush])).2 =
      outsOf k (run c ({} : Engine κ ρ) ops).2 ++ (flushPart c (getPart (run c ({} : Engine κ ρ) ops).1 k)).2 := by
    rw [hout]
    simp only [outsOf, List.flatten_append, List.filter_append, List.map_append] at hfl ⊢
    rw [hfl]
  rw [hall]
  have gall := g.append g2
  have h0 : (getPart ({} : Engine κ ρ) k).nextStart = 0 := rfl
  rw [h0] at gall
  by_cases hlt : r.startSeq < (flushPart c (getPart (run c ({} : Engine κ ρ) ops).1 k)).1.nextStart
  · exact gall.covers r hr hacc (Nat.zero_le _) hlt
  · exact (hnone r hr hacc (by omega)).elim

end

/-! ### every valid match is an admitted accepting run -/

section
variable {ρ : Type}

/-- walking a classified continuation `rest` from a run `cur` whose state set is ε-closed and
contains a state from which the continuation's word leads to the accept state -/
theorem extend_reached (c : Cfg ρ) (hwf : TblWF c.tbl) (h0 : isAcceptAt c.tbl 0 = true) (H : List ρ) :
    ∀ (rest : List (ρ × Sym)) (cur : Run ρ) (i n : Nat),
      SClosed c.tbl cur.states → i ∈ cur.states → PathN c.tbl n i (rest.map (·.2)) 0 →
      (Reached c H cur ∨ (cur.hist = [] ∧ 1 ≤ cur.startSeq ∧ cur = seedRun c cur.startTs cur.startSeq ∧
          ∀ x, rest.head? = some x → cur.startTs = c.ts x.1)) →
      (∀ (j : Nat) (x : ρ × Sym), rest[j]? = some x → H[cur.startSeq - 1 + cur.hist.length + j]? = some x.1) →
      defOK c.define cur.hist rest = true →
      (∀ x ∈ rest, c.ts x.1 - cur.startTs ≤ c.within) →
      cur.hist.length + rest.length ≤ c.maxRunRows + 1 →
      (rest ≠ [] ∨ Reached c H cur) →
      ∃ r, Reached c H r ∧ r.startSeq = cur.startSeq ∧ r.hist = cur.hist ++ rest ∧ runAccepting c r = true
  | [], cur, i, n, hcl, hi, hp, hsrc, hrows, hdef, hwin, hlen, hne => by
    have hr : Reached c H cur := by
      rcases hne with h | h
      · exact absurd rfl h
      · exact h
    refine ⟨cur, hr, rfl, by simp, ?_⟩
    have : 0 ∈ cur.states := hcl.path hp hi
    unfold runAccepting hasAccept
    exact List.any_eq_true.2 ⟨0, this, h0⟩
  | (row, a) :: rest, cur, i, n, hcl, hi, hp, hsrc, hrows, hdef, hwin, hlen, hne => by
    simp only [List.map_cons] at hp
    obtain ⟨j, o, n1, n2, p1, hnode, p2⟩ := path_cons_split hp a _ rfl
    have hj : j ∈ cur.states := hcl.path p1 hi
    have hmo := mem_matchOuts_of hj hnode
    simp only [defOK, Bool.and_eq_true] at hdef
    have hadv : succRun c cur row (a, o) ∈ advance c cur row := by
      unfold advance takers
      exact List.mem_map.2 ⟨(a, o), List.mem_filter.2 ⟨hmo, hdef.1⟩, rfl⟩
    have holt : o < c.tbl.length := hwf j _ hnode o (by simp [nodeOuts])
    obtain ⟨hoin, hocl⟩ := closure_closed c.tbl hwf o holt
    have hrow : H[cur.startSeq - 1 + cur.hist.length]? = some row := by
      have := hrows 0 (row, a) (by simp)
      simpa using this
    have hreach : Reached c H (succRun c cur row (a, o)) := by
      rcases hsrc with hr | ⟨hnil, hpos, hseed, hts⟩
      · refine Reached.next hr hrow ?_ hadv
        unfold live
        have h1 := hwin (row, a) (List.mem_cons_self ..)
        simp only [List.length_cons] at hlen
        simp only [Bool.and_eq_true, decide_eq_true_eq]
        exact ⟨h1, by omega⟩
      · have hts' := hts (row, a) rfl
        rw [hnil] at hrow
        simp at hrow
        have : advance c cur row = advance c (seedRun c (c.ts row) cur.startSeq) row := by
          rw [← hts']; rw [← hseed]
        rw [this] at hadv
        have hsucc : succRun c cur row (a, o) ∈ advance c (seedRun c (c.ts row) cur.startSeq) row := hadv
        exact Reached.first hpos hrow hsucc
    have := extend_reached c hwf h0 H rest (succRun c cur row (a, o)) o n2 hocl hoin p2 (Or.inl hreach)
      (by
        intro j' x hx
        have := hrows (j' + 1) x (by simpa using hx)
        simp only [succRun, List.length_append, List.length_singleton]
        rw [← this]; congr 1; omega)
      (by simpa [succRun] using hdef.2)
      (fun x hx => by simpa [succRun] using hwin x (List.mem_cons_of_mem _ hx))
      (by simp only [succRun, List.length_append, List.length_singleton, List.length_cons, List.length_nil] at hlen ⊢; omega)
      (Or.inr hreach)
    obtain ⟨r, hr, hrs, hrh, hra⟩ := this
    exact ⟨r, hr, by simpa [succRun] using hrs, by simpa [succRun] using hrh, hra⟩

end
end Cep
