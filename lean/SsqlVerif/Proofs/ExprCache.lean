/-
C06 — cache transparency of the bridge's two process-wide memo tables.
-/
import SsqlVerif.Model.Expr
set_option autoImplicit false

namespace Ex.Cache

section
variable {Text Ty Prog Res' Row' : Type} [DecidableEq Text] [DecidableEq Ty]

/-- every stored program is what `compile` gives for its (text, type); every stored text is `prep` of its key -/
def Inv (prep : Text → Text) (compile : Text → Ty → Option Prog) (s : State Text Ty Prog) : Prop :=
  (∀ t ty p, find t s.prog = some (ty, p) → compile t ty = some p) ∧
  (∀ t t', find t s.pre = some t' → t' = prep t)

theorem inv_empty (prep : Text → Text) (compile : Text → Ty → Option Prog) :
    Inv prep compile ({ prog := [], pre := [] } : State Text Ty Prog) := by
  constructor <;> intro _ <;> simp [find]

theorem find_cons {α β : Type} [DecidableEq α] (k a : α) (b : β) (l : List (α × β)) :
    find k ((a, b) :: l) = if a = k then some b else find k l := rfl

theorem preStep_spec (prep : Text → Text) (compile : Text → Ty → Option Prog)
    (s : State Text Ty Prog) (t : Text) (h : Inv prep compile s) :
    (preStep prep s t).2 = prep t ∧ Inv prep compile (preStep prep s t).1 := by
  unfold preStep
  cases hf : find t s.pre with
  | some t' => exact ⟨h.2 t t' hf, h⟩
  | none =>
    refine ⟨rfl, h.1, ?_⟩
    intro k k' hk
    simp only [find_cons] at hk
    by_cases hkt : t = k
    · subst hkt; simp at hk; exact hk.symm
    · simp [hkt] at hk; exact h.2 k k' hk

theorem progStep_spec (prep : Text → Text) (compile : Text → Ty → Option Prog)
    (s : State Text Ty Prog) (t : Text) (ty : Ty) (h : Inv prep compile s) :
    (progStep compile s t ty).2 = compile t ty ∧ Inv prep compile (progStep compile s t ty).1 := by
  have store : ∀ p', compile t ty = some p' →
      Inv prep compile { s with prog := (t, (ty, p')) :: s.prog } := by
    intro p' hc
    refine ⟨?_, h.2⟩
    intro k ky kp hk
    simp only [find_cons] at hk
    by_cases hkt : t = k
    · subst hkt; simp at hk; obtain ⟨rfl, rfl⟩ := hk; exact hc
    · simp [hkt] at hk; exact h.1 k ky kp hk
  unfold progStep
  cases hf : find t s.prog with
  | none =>
    cases hc : compile t ty with
    | none => exact ⟨rfl, h⟩
    | some p' => exact ⟨rfl, store p' hc⟩
  | some e =>
    obtain ⟨ty', p⟩ := e
    by_cases hty : ty' = ty
    · subst hty
      simp only [if_true]
      exact ⟨(h.1 t ty' p hf).symm, h⟩
    · simp only [if_neg hty]
      cases hc : compile t ty with
      | none => exact ⟨rfl, h⟩
      | some p' => exact ⟨rfl, store p' hc⟩

theorem evalStep_spec (prep : Text → Text) (compile : Text → Ty → Option Prog)
    (run : Option Prog → Row' → Res') (tyOf : Row' → Ty)
    (s : State Text Ty Prog) (q : Text × Row') (h : Inv prep compile s) :
    (evalStep prep compile run tyOf s q).2 = evalPure prep compile run tyOf q ∧
    Inv prep compile (evalStep prep compile run tyOf s q).1 := by
  obtain ⟨h1, h2⟩ := preStep_spec prep compile s q.1 h
  obtain ⟨h3, h4⟩ := progStep_spec prep compile (preStep prep s q.1).1 (preStep prep s q.1).2 (tyOf q.2) h2
  refine ⟨?_, h4⟩
  simp only [evalStep, evalPure]
  rw [h3, h1]

theorem runAll_spec (prep : Text → Text) (compile : Text → Ty → Option Prog)
    (run : Option Prog → Row' → Res') (tyOf : Row' → Ty) :
    ∀ (qs : List (Text × Row')) (s : State Text Ty Prog), Inv prep compile s →
      (runAll prep compile run tyOf s qs).2 = qs.map (evalPure prep compile run tyOf) := by
  intro qs
  induction qs with
  | nil => intro s _; rfl
  | cons q qs ih =>
    intro s h
    obtain ⟨h1, h2⟩ := evalStep_spec prep compile run tyOf s q h
    simp only [runAll, List.map_cons, h1, ih _ h2]

end
end Ex.Cache
