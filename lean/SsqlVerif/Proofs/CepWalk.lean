/-
Helper lemmas for C15: the executable reference matcher of the oracle (`Spec.walk`, with the full
classification as state key) enumerates exactly the classified continuations the declarative
definition admits (`Spec.Lang` + `Spec.defOK`).
Core Lean only.
-/
import SsqlVerif.Spec.Cep
import SsqlVerif.Proofs.CepNfa
set_option autoImplicit false
set_option linter.unusedVariables false
set_option linter.unusedSimpArgs false
set_option linter.unusedSectionVars false

namespace Cep
namespace Spec
section
variable {ρ : Type}

/-- `x` continues `s` by the classified rows `w` -/
def Cont (s x : WS ρ) (w : List (ρ × Sym)) : Prop := x.1 = s.1 ++ w ∧ s.2 = w.map (·.1) ++ x.2

theorem Cont.refl (s : WS ρ) : Cont s s [] := ⟨by simp, by simp⟩

theorem Cont.trans {s x y : WS ρ} {u v : List (ρ × Sym)} (h1 : Cont s x u) (h2 : Cont x y v) : Cont s y (u ++ v) :=
  ⟨by rw [h2.1, h1.1]; simp, by rw [h1.2, h2.2]; simp⟩

theorem defOK_append' (d : Sym → List (ρ × Sym) → ρ → Bool) :
    ∀ (xs ys pre : List (ρ × Sym)), defOK d pre (xs ++ ys) = (defOK d pre xs && defOK d (pre ++ xs) ys)
  | [], ys, pre => by simp [defOK]
  | x :: xs, ys, pre => by
    simp only [List.cons_append, defOK]
    rw [defOK_append' d xs ys (pre ++ [x])]
    simp [Bool.and_assoc]

/-- two continuations of one state with the same classification are the same state -/
theorem cont_unique {s x y : WS ρ} {u v : List (ρ × Sym)} (hx : Cont s x u) (hy : Cont s y v)
    (hk : labelsOf x = labelsOf y) : x = y ∧ u = v := by
  obtain ⟨hx1, hx2⟩ := hx
  obtain ⟨hy1, hy2⟩ := hy
  unfold labelsOf at hk
  rw [hx1, hy1, List.map_append, List.map_append] at hk
  have hl : u.map (·.2) = v.map (·.2) := List.append_cancel_left hk
  have hlen : u.length = v.length := by simpa using congrArg List.length hl
  have hf : u.map (·.1) = v.map (·.1) := by
    have h1 : (u.map (·.1) ++ x.2).take u.length = u.map (·.1) := List.take_left' (by simp)
    have h2 : (v.map (·.1) ++ y.2).take u.length = v.map (·.1) := List.take_left' (by simp [hlen])
    rw [← h1, ← h2, ← hx2, ← hy2]
  have huv : u = v := by
    apply List.ext_getElem hlen
    intro i h1 h2
    have e1 : (u.map (·.1))[i]? = (v.map (·.1))[i]? := by rw [hf]
    have e2 : (u.map (·.2))[i]? = (v.map (·.2))[i]? := by rw [hl]
    simp only [List.getElem?_map, List.getElem?_eq_getElem h1, List.getElem?_eq_getElem h2, Option.map_some, Option.some.injEq] at e1 e2
    exact Prod.ext e1 e2
  subst huv
  have h2 : x.2 = y.2 := List.append_cancel_left (hx2.symm.trans hy2)
  exact ⟨Prod.ext (by rw [hx1, hy1]) h2, rfl⟩

/-- split a continuation where its classification splits -/
theorem cont_split {s x : WS ρ} {w : List (ρ × Sym)} {lu lv : List Sym} (hc : Cont s x w)
    (hsplit : w.map (·.2) = lu ++ lv) :
    ∃ (y : WS ρ) (u v : List (ρ × Sym)), w = u ++ v ∧ u.map (·.2) = lu ∧ v.map (·.2) = lv ∧ Cont s y u ∧ Cont y x v := by
  refine ⟨(s.1 ++ w.take lu.length, (w.drop lu.length).map (·.1) ++ x.2), w.take lu.length, w.drop lu.length,
    (List.take_append_drop _ _).symm, ?_, ?_, ⟨rfl, ?_⟩, ⟨?_, rfl⟩⟩
  · have h1 : (w.map (·.2)).take lu.length = lu := by rw [hsplit]; exact List.take_left' rfl
    rw [← List.map_take] at h1; exact h1
  · have h1 : (w.map (·.2)).drop lu.length = lv := by rw [hsplit]; exact List.drop_left' rfl
    rw [← List.map_drop] at h1; exact h1
  · show s.2 = (w.take lu.length).map (·.1) ++ ((w.drop lu.length).map (·.1) ++ x.2)
    rw [← List.append_assoc, ← List.map_append, List.take_append_drop]; exact hc.2
  · show x.1 = (s.1 ++ w.take lu.length) ++ w.drop lu.length
    rw [List.append_assoc, List.take_append_drop]; exact hc.1

/-! ### `dedup` -/

theorem mem_dedup_sub (lf : Option (List Sym)) : ∀ {l : List (WS ρ)} {x : WS ρ}, x ∈ dedup lf l → x ∈ l
  | [], x, h => by simp [dedup] at h
  | s :: ss, x, h => by
    simp only [dedup] at h
    split at h
    · exact List.mem_cons_of_mem _ (mem_dedup_sub lf h)
    · rcases List.mem_cons.1 h with rfl | h
      · exact List.mem_cons_self ..
      · exact List.mem_cons_of_mem _ (mem_dedup_sub lf h)

/-- with the classification as key, `dedup` keeps a state with every key that occurs -/
theorem dedup_key : ∀ {l : List (WS ρ)} {x : WS ρ}, x ∈ l → ∃ y ∈ dedup none l, labelsOf y = labelsOf x
  | [], x, h => by cases h
  | s :: ss, x, h => by
    simp only [dedup]
    rcases List.mem_cons.1 h with rfl | h
    · split
      · next hany =>
        obtain ⟨t, ht, hk⟩ := List.any_eq_true.1 hany
        exact ⟨t, ht, by simpa [stateKey] using hk⟩
      · exact ⟨x, List.mem_cons_self .., rfl⟩
    · obtain ⟨y, hy, hk⟩ := dedup_key h
      split
      · exact ⟨y, hy, hk⟩
      · exact ⟨y, List.mem_cons_of_mem _ hy, hk⟩

/-- all members continue `s0`: then `dedup` loses nothing -/
theorem mem_dedup_of_cont {s0 : WS ρ} {l : List (WS ρ)} (hl : ∀ y ∈ l, ∃ w, Cont s0 y w) {x : WS ρ} (hx : x ∈ l) :
    x ∈ dedup none l := by
  obtain ⟨y, hy, hk⟩ := dedup_key hx
  obtain ⟨u, hu⟩ := hl y (mem_dedup_sub none hy)
  obtain ⟨v, hv⟩ := hl x hx
  rw [← (cont_unique hu hv hk).1]; exact hy

/-! ### iteration -/

/-- `n` steps of `f` -/
inductive StepN (f : WS ρ → List (WS ρ)) : Nat → WS ρ → WS ρ → Prop
  | zero (s : WS ρ) : StepN f 0 s s
  | succ {n : Nat} {s y x : WS ρ} : y ∈ f s → StepN f n y x → StepN f (n+1) s x

theorem mem_iterWalk_sub (lf : Option (List Sym)) (f : WS ρ → List (WS ρ)) :
    ∀ (k : Nat) (S : List (WS ρ)) (x : WS ρ), x ∈ iterWalk lf f k S → ∃ s ∈ S, StepN f k s x
  | 0, S, x, h => ⟨x, h, StepN.zero x⟩
  | k+1, S, x, h => by
    simp only [iterWalk] at h
    obtain ⟨y, hy, hst⟩ := mem_iterWalk_sub lf f k _ x h
    obtain ⟨s, hs, hys⟩ := List.mem_flatMap.1 (mem_dedup_sub lf hy)
    exact ⟨s, hs, StepN.succ hys hst⟩

theorem mem_iterRange_sub (lf : Option (List Sym)) (f : WS ρ → List (WS ρ)) :
    ∀ (e : Nat) (S : List (WS ρ)) (x : WS ρ), x ∈ iterRange lf f e S → ∃ s ∈ S, ∃ j, j ≤ e ∧ StepN f j s x
  | 0, S, x, h => ⟨x, h, 0, Nat.le_refl _, StepN.zero x⟩
  | e+1, S, x, h => by
    simp only [iterRange] at h
    rcases List.mem_append.1 h with h | h
    · exact ⟨x, h, 0, Nat.zero_le _, StepN.zero x⟩
    · obtain ⟨y, hy, j, hj, hst⟩ := mem_iterRange_sub lf f e _ x h
      obtain ⟨s, hs, hys⟩ := List.mem_flatMap.1 (mem_dedup_sub lf hy)
      exact ⟨s, hs, j+1, by omega, StepN.succ hys hst⟩

/-- what a step function has to satisfy: sound and exact with respect to a language `L` -/
structure StepOK (d : Sym → List (ρ × Sym) → ρ → Bool) (f : WS ρ → List (WS ρ)) (L : List Sym → Prop) : Prop where
  sound : ∀ s x, x ∈ f s → ∃ w, Cont s x w ∧ L (w.map (·.2)) ∧ defOK d s.1 w = true
  complete : ∀ s x w, Cont s x w → L (w.map (·.2)) → defOK d s.1 w = true → x ∈ f s

theorem stepN_sound {d : Sym → List (ρ × Sym) → ρ → Bool} {f : WS ρ → List (WS ρ)} {L : List Sym → Prop}
    (hf : StepOK d f L) : ∀ {n : Nat} {s x : WS ρ}, StepN f n s x →
      ∃ w, Cont s x w ∧ Pow L n (w.map (·.2)) ∧ defOK d s.1 w = true := by
  intro n s x h
  induction h with
  | zero s => exact ⟨[], Cont.refl s, rfl, rfl⟩
  | @succ n s y x hy _ ih =>
    obtain ⟨u, hu, hlu, hdu⟩ := hf.sound s y hy
    obtain ⟨v, hv, hlv, hdv⟩ := ih
    refine ⟨u ++ v, hu.trans hv, ?_, ?_⟩
    · simp only [List.map_append]; exact ⟨_, _, rfl, hlu, hlv⟩
    · rw [defOK_append', hdu, ← hu.1, hdv]; rfl

theorem stepN_complete {d : Sym → List (ρ × Sym) → ρ → Bool} {f : WS ρ → List (WS ρ)} {L : List Sym → Prop}
    (hf : StepOK d f L) : ∀ (n : Nat) (s x : WS ρ) (w : List (ρ × Sym)), Cont s x w → Pow L n (w.map (·.2)) →
      defOK d s.1 w = true → StepN f n s x
  | 0, s, x, w, hc, hp, hd => by
    have hw : w = [] := by
      have := hp
      simp only [Pow, List.map_eq_nil_iff] at this
      exact this
    subst hw
    obtain ⟨h1, h2⟩ := hc
    have : x = s := Prod.ext (by simpa using h1) (by simpa using h2.symm)
    subst this; exact StepN.zero _
  | n+1, s, x, w, hc, hp, hd => by
    obtain ⟨lu, lv, hsplit, hlu, hlv⟩ := hp
    obtain ⟨y, u, v, rfl, hmu, hmv, hsy, hyx⟩ := cont_split hc hsplit
    rw [defOK_append', Bool.and_eq_true] at hd
    exact StepN.succ (hf.complete s y u hsy (by rw [hmu]; exact hlu) hd.1)
      (stepN_complete hf n y x v hyx (by rw [hmv]; exact hlv) (by rw [hsy.1]; exact hd.2))

/-- every state reached by steps continues the origin -/
theorem stepN_cont {d : Sym → List (ρ × Sym) → ρ → Bool} {f : WS ρ → List (WS ρ)} {L : List Sym → Prop}
    (hf : StepOK d f L) {n : Nat} {s x : WS ρ} (h : StepN f n s x) : ∃ w, Cont s x w := by
  obtain ⟨w, hw, _, _⟩ := stepN_sound hf h; exact ⟨w, hw⟩

theorem mem_iterWalk_of {d : Sym → List (ρ × Sym) → ρ → Bool} {f : WS ρ → List (WS ρ)} {L : List Sym → Prop}
    (hf : StepOK d f L) (s0 : WS ρ) : ∀ (k : Nat) (S : List (WS ρ)), (∀ y ∈ S, ∃ w, Cont s0 y w) →
      ∀ (s x : WS ρ), s ∈ S → StepN f k s x → x ∈ iterWalk none f k S
  | 0, S, _, s, x, hs, h => by cases h; exact hs
  | k+1, S, hS, s, x, hs, h => by
    cases h with
    | succ hy hrest =>
      simp only [iterWalk]
      have hall : ∀ z ∈ S.flatMap f, ∃ w, Cont s0 z w := by
        intro z hz
        obtain ⟨s', hs', hz'⟩ := List.mem_flatMap.1 hz
        obtain ⟨u, hu⟩ := hS s' hs'
        obtain ⟨v, hv, _, _⟩ := hf.sound s' z hz'
        exact ⟨u ++ v, hu.trans hv⟩
      refine mem_iterWalk_of hf s0 k _ (fun z hz => hall z (mem_dedup_sub none hz)) _ x ?_ hrest
      exact mem_dedup_of_cont hall (List.mem_flatMap.2 ⟨s, hs, hy⟩)

theorem mem_iterRange_of {d : Sym → List (ρ × Sym) → ρ → Bool} {f : WS ρ → List (WS ρ)} {L : List Sym → Prop}
    (hf : StepOK d f L) (s0 : WS ρ) : ∀ (e : Nat) (S : List (WS ρ)), (∀ y ∈ S, ∃ w, Cont s0 y w) →
      ∀ (s x : WS ρ) (j : Nat), s ∈ S → j ≤ e → StepN f j s x → x ∈ iterRange none f e S
  | 0, S, _, s, x, j, hs, hj, h => by
    have : j = 0 := by omega
    subst this; cases h; exact hs
  | e+1, S, hS, s, x, j, hs, hj, h => by
    simp only [iterRange]
    cases h with
    | zero => exact List.mem_append_left _ hs
    | @succ n _ y _ hy hrest =>
      refine List.mem_append_right _ ?_
      have hall : ∀ z ∈ S.flatMap f, ∃ w, Cont s0 z w := by
        intro z hz
        obtain ⟨s', hs', hz'⟩ := List.mem_flatMap.1 hz
        obtain ⟨u, hu⟩ := hS s' hs'
        obtain ⟨v, hv, _, _⟩ := hf.sound s' z hz'
        exact ⟨u ++ v, hu.trans hv⟩
      refine mem_iterRange_of hf s0 e _ (fun z hz => hall z (mem_dedup_sub none hz)) y x n ?_ (by omega) hrest
      exact mem_dedup_of_cont hall (List.mem_flatMap.2 ⟨s, hs, hy⟩)

/-- steps that consume nothing can be left out: at most `|rows left|` steps are needed -/
theorem stepN_shorten {d : Sym → List (ρ × Sym) → ρ → Bool} {f : WS ρ → List (WS ρ)} {L : List Sym → Prop}
    (hf : StepOK d f L) : ∀ {n : Nat} {s x : WS ρ}, StepN f n s x → ∃ j, j ≤ s.2.length ∧ StepN f j s x := by
  intro n s x h
  induction h with
  | zero s => exact ⟨0, Nat.zero_le _, StepN.zero s⟩
  | @succ n s y x hy _ ih =>
    obtain ⟨j, hj, hst⟩ := ih
    obtain ⟨w, hw, _, _⟩ := hf.sound s y hy
    cases hw' : w with
    | nil =>
      subst hw'
      have : y = s := Prod.ext (by simpa using hw.1) (by simpa using hw.2.symm)
      subst this
      exact ⟨j, hj, hst⟩
    | cons a w' =>
      subst hw'
      have hlen : y.2.length < s.2.length := by rw [hw.2]; simp; omega
      exact ⟨j+1, by omega, StepN.succ hy hst⟩

/-! ### `walk` -/

theorem walkLit_ok (d : Sym → List (ρ × Sym) → ρ → Bool) (a : Sym) : StepOK d (walkLit d a) (fun w => w = [a]) where
  sound s x hx := by
    unfold walkLit at hx
    cases hs : s.2 with
    | nil => rw [hs] at hx; cases hx
    | cons r rs =>
      rw [hs] at hx
      simp only at hx
      split at hx
      · next hd =>
        rw [List.mem_singleton.1 hx]
        exact ⟨[(r, a)], ⟨rfl, by simp [hs]⟩, rfl, by simp [defOK, hd]⟩
      · cases hx
  complete s x w hc hl hd := by
    obtain ⟨hc1, hc2⟩ := hc
    cases w with
    | nil => simp at hl
    | cons y w' =>
      cases w' with
      | cons _ _ => simp at hl
      | nil =>
        simp only [List.map_cons, List.map_nil, List.cons.injEq, and_true] at hl
        unfold walkLit
        simp only [List.map_cons, List.map_nil, List.cons_append, List.nil_append] at hc2
        rw [hc2]
        simp only [defOK, Bool.and_true, List.append_nil] at hd
        rw [hl] at hd
        simp only [hd, if_true, List.mem_singleton]
        exact Prod.ext (by rw [hc1]; simp [← hl]) rfl

theorem walk_ok (d : Sym → List (ρ × Sym) → ρ → Bool) : ∀ (p : Pat), p.valid → StepOK d (walk none d p) (Lang p)
  | .lit a, _ => by simpa [walk, Lang] using walkLit_ok d a
  | .empty, _ =>
    { sound := fun s x hx => by
        simp only [walk, List.mem_singleton] at hx
        subst hx
        exact ⟨[], Cont.refl _, by simp [Lang], rfl⟩
      complete := fun s x w hc hl hd => by
        have hw : w = [] := by simpa [Lang] using hl
        subst hw
        obtain ⟨h1, h2⟩ := hc
        simp only [walk, List.mem_singleton]
        exact Prod.ext (by simpa using h1) (by simpa using h2.symm) }
  | .seq p q, hv =>
    have hp := walk_ok d p hv.1
    have hq := walk_ok d q hv.2
    { sound := fun s x hx => by
        simp only [walk] at hx
        obtain ⟨y, hy, hxy⟩ := List.mem_flatMap.1 (mem_dedup_sub none hx)
        obtain ⟨u, hu, hlu, hdu⟩ := hp.sound s y hy
        obtain ⟨v, hv, hlv, hdv⟩ := hq.sound y x hxy
        refine ⟨u ++ v, hu.trans hv, ?_, ?_⟩
        · simp only [Lang, List.map_append]; exact ⟨_, _, rfl, hlu, hlv⟩
        · rw [defOK_append', hdu, ← hu.1, hdv]; rfl
      complete := fun s x w hc hl hd => by
        obtain ⟨lu, lv, hsplit, hlu, hlv⟩ := hl
        obtain ⟨y, u, v, rfl, hmu, hmv, hsy, hyx⟩ := cont_split hc hsplit
        rw [defOK_append', Bool.and_eq_true] at hd
        have hy := hp.complete s y _ hsy (by rw [hmu]; exact hlu) hd.1
        have hx := hq.complete y x _ hyx (by rw [hmv]; exact hlv) (by rw [hsy.1]; exact hd.2)
        simp only [walk]
        refine mem_dedup_of_cont (s0 := s) ?_ (List.mem_flatMap.2 ⟨y, hy, hx⟩)
        intro z hz
        obtain ⟨y', hy', hz'⟩ := List.mem_flatMap.1 hz
        obtain ⟨u', hu', _, _⟩ := hp.sound s y' hy'
        obtain ⟨v', hv', _, _⟩ := hq.sound y' z hz'
        exact ⟨u' ++ v', hu'.trans hv'⟩ }
  | .alt p q, hv =>
    have hp := walk_ok d p hv.1
    have hq := walk_ok d q hv.2
    { sound := fun s x hx => by
        simp only [walk] at hx
        rcases List.mem_append.1 (mem_dedup_sub none hx) with h | h
        · obtain ⟨w, hw, hl, hd⟩ := hp.sound s x h
          exact ⟨w, hw, Or.inl hl, hd⟩
        · obtain ⟨w, hw, hl, hd⟩ := hq.sound s x h
          exact ⟨w, hw, Or.inr hl, hd⟩
      complete := fun s x w hc hl hd => by
        simp only [walk]
        refine mem_dedup_of_cont (s0 := s) ?_ ?_
        · intro z hz
          rcases List.mem_append.1 hz with h | h
          · obtain ⟨u, hu, _, _⟩ := hp.sound s z h; exact ⟨u, hu⟩
          · obtain ⟨u, hu, _, _⟩ := hq.sound s z h; exact ⟨u, hu⟩
        · rcases hl with hl | hl
          · exact List.mem_append_left _ (hp.complete s x w hc hl hd)
          · exact List.mem_append_right _ (hq.complete s x w hc hl hd) }
  | .rep p mn none, hv =>
    have hp := walk_ok d p hv
    { sound := fun s x hx => by
        simp only [walk] at hx
        obtain ⟨y, hy, j, _, hst⟩ := mem_iterRange_sub none _ _ _ x (mem_dedup_sub none hx)
        obtain ⟨s', hs', hst'⟩ := mem_iterWalk_sub none _ mn _ y hy
        simp only [List.mem_singleton] at hs'
        subst hs'
        obtain ⟨u, hu, hlu, hdu⟩ := stepN_sound hp hst'
        obtain ⟨v, hv, hlv, hdv⟩ := stepN_sound hp hst
        refine ⟨u ++ v, hu.trans hv, ?_, ?_⟩
        · simp only [Lang, List.map_append]
          refine ⟨mn + j, by omega, (by intro m hm; cases hm), ?_⟩
          -- powers add
          have : ∀ (a b : Nat) (x y : List Sym), Pow (Lang p) a x → Pow (Lang p) b y → Pow (Lang p) (a + b) (x ++ y) := by
            intro a
            induction a with
            | zero => intro b x y hx hy; cases hx; simpa using hy
            | succ a ih =>
              intro b x y hx hy
              obtain ⟨x1, x2, rfl, h1, h2⟩ := hx
              rw [Nat.succ_add]
              exact ⟨x1, x2 ++ y, by simp, h1, ih b x2 y h2 hy⟩
          exact this mn j _ _ hlu hlv
        · rw [defOK_append', hdu, ← hu.1, hdv]; rfl
      complete := fun s x w hc hl hd => by
        obtain ⟨n, hn, _, hpow⟩ := hl
        have hst := stepN_complete hp n s x w hc hpow hd
        -- the first `mn` steps, then the rest without the steps that consume nothing
        have split : ∀ (a b : Nat) (s x : WS ρ), StepN (walk none d p) (a + b) s x →
            ∃ y, StepN (walk none d p) a s y ∧ StepN (walk none d p) b y x := by
          intro a
          induction a with
          | zero => intro b s x h; exact ⟨s, StepN.zero s, by simpa using h⟩
          | succ a ih =>
            intro b s x h
            rw [Nat.succ_add] at h
            cases h with
            | succ hy hrest =>
              obtain ⟨y', h1, h2⟩ := ih b _ x hrest
              exact ⟨y', StepN.succ hy h1, h2⟩
        have hnn : n = mn + (n - mn) := by omega
        rw [hnn] at hst
        obtain ⟨y, h1, h2⟩ := split mn (n - mn) s x hst
        obtain ⟨j, hj, h3⟩ := stepN_shorten hp h2
        obtain ⟨u, hu⟩ := stepN_cont hp h1
        have hyl : y.2.length ≤ s.2.length := by rw [hu.2]; simp
        simp only [walk]
        have hS : ∀ z ∈ iterWalk none (walk none d p) mn [s], ∃ w, Cont s z w := by
          intro z hz
          obtain ⟨s', hs', hst'⟩ := mem_iterWalk_sub none _ mn _ z hz
          simp only [List.mem_singleton] at hs'
          subst hs'
          exact stepN_cont hp hst'
        have hy : y ∈ iterWalk none (walk none d p) mn [s] :=
          mem_iterWalk_of hp s mn [s] (by intro z hz; simp at hz; subst hz; exact ⟨[], Cont.refl _⟩) s y (by simp) h1
        have hx : x ∈ iterRange none (walk none d p) s.2.length (iterWalk none (walk none d p) mn [s]) :=
          mem_iterRange_of hp s _ _ hS y x j hy (by omega) h3
        refine mem_dedup_of_cont (s0 := s) ?_ hx
        intro z hz
        obtain ⟨y', hy', j', _, hst'⟩ := mem_iterRange_sub none _ _ _ z hz
        obtain ⟨u', hu'⟩ := hS y' hy'
        obtain ⟨v', hv'⟩ := stepN_cont hp hst'
        exact ⟨u' ++ v', hu'.trans hv'⟩ }
  | .rep p mn (some mx), hv =>
    have hp := walk_ok d p hv.1
    { sound := fun s x hx => by
        simp only [walk] at hx
        obtain ⟨y, hy, j, hj, hst⟩ := mem_iterRange_sub none _ _ _ x (mem_dedup_sub none hx)
        obtain ⟨s', hs', hst'⟩ := mem_iterWalk_sub none _ mn _ y hy
        simp only [List.mem_singleton] at hs'
        subst hs'
        obtain ⟨u, hu, hlu, hdu⟩ := stepN_sound hp hst'
        have hle : mn ≤ mx := hv.2
        obtain ⟨v, hv', hlv, hdv⟩ := stepN_sound hp hst
        · refine ⟨u ++ v, hu.trans hv', ?_, ?_⟩
          · simp only [Lang, List.map_append]
            refine ⟨mn + j, by omega, (by intro m hm; cases hm; omega), ?_⟩
            have : ∀ (a b : Nat) (x y : List Sym), Pow (Lang p) a x → Pow (Lang p) b y → Pow (Lang p) (a + b) (x ++ y) := by
              intro a
              induction a with
              | zero => intro b x y hx hy; cases hx; simpa using hy
              | succ a ih =>
                intro b x y hx hy
                obtain ⟨x1, x2, rfl, h1, h2⟩ := hx
                rw [Nat.succ_add]
                exact ⟨x1, x2 ++ y, by simp, h1, ih b x2 y h2 hy⟩
            exact this mn j _ _ hlu hlv
          · rw [defOK_append', hdu, ← hu.1, hdv]; rfl
      complete := fun s x w hc hl hd => by
        obtain ⟨n, hn, hm, hpow⟩ := hl
        have hnm := hm mx rfl
        have hst := stepN_complete hp n s x w hc hpow hd
        have split : ∀ (a b : Nat) (s x : WS ρ), StepN (walk none d p) (a + b) s x →
            ∃ y, StepN (walk none d p) a s y ∧ StepN (walk none d p) b y x := by
          intro a
          induction a with
          | zero => intro b s x h; exact ⟨s, StepN.zero s, by simpa using h⟩
          | succ a ih =>
            intro b s x h
            rw [Nat.succ_add] at h
            cases h with
            | succ hy hrest =>
              obtain ⟨y', h1, h2⟩ := ih b _ x hrest
              exact ⟨y', StepN.succ hy h1, h2⟩
        have hnn : n = mn + (n - mn) := by omega
        rw [hnn] at hst
        obtain ⟨y, h1, h2⟩ := split mn (n - mn) s x hst
        simp only [walk]
        have hS : ∀ z ∈ iterWalk none (walk none d p) mn [s], ∃ w, Cont s z w := by
          intro z hz
          obtain ⟨s', hs', hst'⟩ := mem_iterWalk_sub none _ mn _ z hz
          simp only [List.mem_singleton] at hs'
          subst hs'
          exact stepN_cont hp hst'
        have hy : y ∈ iterWalk none (walk none d p) mn [s] :=
          mem_iterWalk_of hp s mn [s] (by intro z hz; simp at hz; subst hz; exact ⟨[], Cont.refl _⟩) s y (by simp) h1
        have hx : x ∈ iterRange none (walk none d p) (mx - mn) (iterWalk none (walk none d p) mn [s]) :=
          mem_iterRange_of hp s _ _ hS y x (n - mn) hy (by omega) h2
        refine mem_dedup_of_cont (s0 := s) ?_ hx
        intro z hz
        obtain ⟨y', hy', j', _, hst'⟩ := mem_iterRange_sub none _ _ _ z hz
        obtain ⟨u', hu'⟩ := hS y' hy'
        obtain ⟨v', hv'⟩ := stepN_cont hp hst'
        exact ⟨u' ++ v', hu'.trans hv'⟩ }

/-! ### soundness for any state key (the oracle prunes with a coarser key) -/

theorem stepN_sound' {d : Sym → List (ρ × Sym) → ρ → Bool} {f : WS ρ → List (WS ρ)} {L : List Sym → Prop}
    (hf : ∀ s x, x ∈ f s → ∃ w, Cont s x w ∧ L (w.map (·.2)) ∧ defOK d s.1 w = true) :
    ∀ {n : Nat} {s x : WS ρ}, StepN f n s x → ∃ w, Cont s x w ∧ Pow L n (w.map (·.2)) ∧ defOK d s.1 w = true := by
  intro n s x h
  induction h with
  | zero s => exact ⟨[], Cont.refl s, rfl, rfl⟩
  | @succ n s y x hy _ ih =>
    obtain ⟨u, hu, hlu, hdu⟩ := hf s y hy
    obtain ⟨v, hv, hlv, hdv⟩ := ih
    refine ⟨u ++ v, hu.trans hv, ?_, ?_⟩
    · simp only [List.map_append]; exact ⟨_, _, rfl, hlu, hlv⟩
    · rw [defOK_append', hdu, ← hu.1, hdv]; rfl

theorem pow_add' {L : List Sym → Prop} : ∀ (a b : Nat) (x y : List Sym), Pow L a x → Pow L b y → Pow L (a + b) (x ++ y) := by
  intro a
  induction a with
  | zero => intro b x y hx hy; cases hx; simpa using hy
  | succ a ih =>
    intro b x y hx hy
    obtain ⟨x1, x2, rfl, h1, h2⟩ := hx
    rw [Nat.succ_add]
    exact ⟨x1, x2 ++ y, by simp, h1, ih b x2 y h2 hy⟩

/-- whatever the pruning key: everything the reference matcher returns is admitted by the declarative definition -/
theorem walk_sound (lf : Option (List Sym)) (d : Sym → List (ρ × Sym) → ρ → Bool) : ∀ (p : Pat), p.valid →
    ∀ (s x : WS ρ), x ∈ walk lf d p s → ∃ w, Cont s x w ∧ Lang p (w.map (·.2)) ∧ defOK d s.1 w = true
  | .lit a, _, s, x, hx => by
    simp only [walk] at hx
    simpa [Lang] using (walkLit_ok d a).sound s x hx
  | .empty, _, s, x, hx => by
    simp only [walk, List.mem_singleton] at hx
    subst hx
    exact ⟨[], Cont.refl _, by simp [Lang], rfl⟩
  | .seq p q, hv, s, x, hx => by
    simp only [walk] at hx
    obtain ⟨y, hy, hxy⟩ := List.mem_flatMap.1 (mem_dedup_sub lf hx)
    obtain ⟨u, hu, hlu, hdu⟩ := walk_sound lf d p hv.1 s y hy
    obtain ⟨v, hv', hlv, hdv⟩ := walk_sound lf d q hv.2 y x hxy
    refine ⟨u ++ v, hu.trans hv', ?_, ?_⟩
    · simp only [Lang, List.map_append]; exact ⟨_, _, rfl, hlu, hlv⟩
    · rw [defOK_append', hdu, ← hu.1, hdv]; rfl
  | .alt p q, hv, s, x, hx => by
    simp only [walk] at hx
    rcases List.mem_append.1 (mem_dedup_sub lf hx) with h | h
    · obtain ⟨w, hw, hl, hd⟩ := walk_sound lf d p hv.1 s x h
      exact ⟨w, hw, Or.inl hl, hd⟩
    · obtain ⟨w, hw, hl, hd⟩ := walk_sound lf d q hv.2 s x h
      exact ⟨w, hw, Or.inr hl, hd⟩
  | .rep p mn none, hv, s, x, hx => by
    simp only [walk] at hx
    obtain ⟨y, hy, j, _, hst⟩ := mem_iterRange_sub lf _ _ _ x (mem_dedup_sub lf hx)
    obtain ⟨s', hs', hst'⟩ := mem_iterWalk_sub lf _ mn _ y hy
    simp only [List.mem_singleton] at hs'
    subst hs'
    obtain ⟨u, hu, hlu, hdu⟩ := stepN_sound' (walk_sound lf d p hv) hst'
    obtain ⟨v, hv', hlv, hdv⟩ := stepN_sound' (walk_sound lf d p hv) hst
    refine ⟨u ++ v, hu.trans hv', ?_, ?_⟩
    · simp only [Lang, List.map_append]
      exact ⟨mn + j, by omega, (by intro m hm; cases hm), pow_add' mn j _ _ hlu hlv⟩
    · rw [defOK_append', hdu, ← hu.1, hdv]; rfl
  | .rep p mn (some mx), hv, s, x, hx => by
    simp only [walk] at hx
    obtain ⟨y, hy, j, hj, hst⟩ := mem_iterRange_sub lf _ _ _ x (mem_dedup_sub lf hx)
    obtain ⟨s', hs', hst'⟩ := mem_iterWalk_sub lf _ mn _ y hy
    simp only [List.mem_singleton] at hs'
    subst hs'
    have hle : mn ≤ mx := hv.2
    obtain ⟨u, hu, hlu, hdu⟩ := stepN_sound' (walk_sound lf d p hv.1) hst'
    obtain ⟨v, hv', hlv, hdv⟩ := stepN_sound' (walk_sound lf d p hv.1) hst
    refine ⟨u ++ v, hu.trans hv', ?_, ?_⟩
    · simp only [Lang, List.map_append]
      exact ⟨mn + j, by omega, (by intro m hm; cases hm; omega), pow_add' mn j _ _ hlu hlv⟩
    · rw [defOK_append', hdu, ← hu.1, hdv]; rfl

/-! ### `matchesFrom` -/

theorem within_of_mem {q : Query ρ} {rows : List ρ} {m : List (ρ × Sym)} (h : m ∈ matchesFrom q rows) :
    m ≠ [] ∧ withinOK q.ts q.within (m.map (·.1)) = true := by
  unfold matchesFrom at h
  obtain ⟨_, hf⟩ := List.mem_filter.1 h
  simp only [Bool.and_eq_true, Bool.not_eq_true', List.isEmpty_eq_false_iff] at hf
  exact ⟨hf.1, hf.2⟩

/-- every match the reference reports is valid and lies on the first rows (any pruning key) -/
theorem matchesFrom_sound (q : Query ρ) (hv : q.pat.valid) (rows : List ρ) (m : List (ρ × Sym))
    (h : m ∈ matchesFrom q rows) : ValidMatch q m ∧ m.map (·.1) = rows.take m.length := by
  obtain ⟨hne, hwin⟩ := within_of_mem h
  unfold matchesFrom at h
  obtain ⟨hm, _⟩ := List.mem_filter.1 h
  obtain ⟨x, hx, rfl⟩ := List.mem_map.1 hm
  obtain ⟨w, hw, hl, hd⟩ := walk_sound q.keySyms q.define q.pat hv ([], rows) x hx
  obtain ⟨h1, h2⟩ := hw
  simp only [List.nil_append] at h1
  subst h1
  simp only at h2 hd
  refine ⟨⟨hne, hl, hd, hwin⟩, ?_⟩
  rw [h2]
  exact (List.take_left' (by simp)).symm

/-- with the classification itself as state key the reference reports exactly the valid matches -/
theorem matchesFrom_exact (q : Query ρ) (hv : q.pat.valid) (hk : q.keySyms = none) (rows : List ρ) (m : List (ρ × Sym)) :
    m ∈ matchesFrom q rows ↔ (ValidMatch q m ∧ m.map (·.1) = rows.take m.length) := by
  constructor
  · exact matchesFrom_sound q hv rows m
  · rintro ⟨⟨hne, hl, hd, hwin⟩, hrows⟩
    unfold matchesFrom
    refine List.mem_filter.2 ⟨List.mem_map.2 ⟨(m, rows.drop m.length), ?_, rfl⟩, ?_⟩
    · rw [hk]
      refine (walk_ok q.define q.pat hv).complete ([], rows) (m, rows.drop m.length) m ⟨by simp, ?_⟩ hl hd
      show rows = m.map (·.1) ++ rows.drop m.length
      rw [hrows, List.take_append_drop]
    · simp only [Bool.and_eq_true, Bool.not_eq_true', List.isEmpty_eq_false_iff]
      exact ⟨hne, hwin⟩

end
end Spec
end Cep
