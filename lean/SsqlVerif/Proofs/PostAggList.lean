/-
Helper lemmas for C07, generic list part: stable insertion sort (`insertBy`, `sortBy`),
`applyLimit`, DISTINCT (`distinctAux` = first occurrences), the oracle's boolean list tests.
Core Lean only.
-/
import SsqlVerif.Model.PostAgg
import SsqlVerif.Spec.PostAgg
set_option autoImplicit false
set_option linter.unusedVariables false
set_option linter.unusedSimpArgs false

namespace PostAgg
variable {α : Type}

/-! ### insertion sort: permutation -/

theorem insertBy_perm (less : α → α → Bool) (x : α) (l : List α) :
    (insertBy less x l).Perm (x :: l) := by
  induction l with
  | nil => exact List.Perm.refl _
  | cons y ys ih =>
    unfold insertBy
    by_cases h : less y x = true
    · rw [if_pos h]
      exact ((List.Perm.cons y ih).trans (List.Perm.swap x y ys))
    · rw [if_neg h]

theorem sortBy_perm (less : α → α → Bool) (l : List α) : (sortBy less l).Perm l := by
  induction l with
  | nil => exact List.Perm.refl _
  | cons x xs ih =>
    unfold sortBy
    exact (insertBy_perm less x _).trans (List.Perm.cons x ih)

theorem mem_insertBy (less : α → α → Bool) (x z : α) (l : List α) :
    z ∈ insertBy less x l ↔ z = x ∨ z ∈ l := by
  rw [(insertBy_perm less x l).mem_iff]; simp

theorem mem_sortBy (less : α → α → Bool) (z : α) (l : List α) : z ∈ sortBy less l ↔ z ∈ l :=
  (sortBy_perm less l).mem_iff

theorem length_sortBy (less : α → α → Bool) (l : List α) : (sortBy less l).length = l.length :=
  (sortBy_perm less l).length_eq

/-! ### insertion sort: sortedness (relative to the elements of the list) -/

/-- no later element sorts strictly before an earlier one -/
def SortedBy (less : α → α → Bool) (l : List α) : Prop := l.Pairwise (fun a b => less b a = false)

/-- `less` behaves as a strict weak order on the elements satisfying `S` -/
structure WeakOn (less : α → α → Bool) (S : α → Prop) : Prop where
  asymm : ∀ a b, S a → S b → less a b = true → less b a = false
  ntrans : ∀ a b c, S a → S b → S c → less a b = false → less b c = false → less a c = false

theorem insertBy_sorted (less : α → α → Bool) (S : α → Prop) (hw : WeakOn less S) (x : α) (l : List α)
    (hx : S x) (hl : ∀ z ∈ l, S z) (hs : SortedBy less l) : SortedBy less (insertBy less x l) := by
  induction l with
  | nil => simp [insertBy, SortedBy]
  | cons y ys ih =>
    have hy : S y := hl y (by simp)
    have hys : ∀ z ∈ ys, S z := fun z hz => hl z (by simp [hz])
    have hs' := List.pairwise_cons.mp hs
    unfold insertBy
    by_cases h : less y x = true
    · rw [if_pos h]
      apply List.pairwise_cons.mpr
      refine ⟨?_, ih hys hs'.2⟩
      intro z hz
      rcases (mem_insertBy less x z ys).mp hz with rfl | hz
      · exact hw.asymm y z hy hx h
      · exact hs'.1 z hz
    · rw [if_neg h]
      have hyx : less y x = false := by simpa using h
      apply List.pairwise_cons.mpr
      refine ⟨?_, hs⟩
      intro z hz
      rcases List.mem_cons.mp hz with rfl | hz
      · exact hyx
      · exact hw.ntrans z y x (hys z hz) hy hx (hs'.1 z hz) hyx

theorem sortBy_sorted (less : α → α → Bool) (S : α → Prop) (hw : WeakOn less S) (l : List α)
    (hl : ∀ z ∈ l, S z) : SortedBy less (sortBy less l) := by
  induction l with
  | nil => simp [sortBy, SortedBy]
  | cons x xs ih =>
    unfold sortBy
    have hxs : ∀ z ∈ xs, S z := fun z hz => hl z (by simp [hz])
    exact insertBy_sorted less S hw x _ (hl x (by simp))
      (fun z hz => hxs z ((mem_sortBy less z xs).mp hz)) (ih hxs)

/-! ### insertion sort: congruence, mapping, trivial orders -/

theorem insertBy_congr (less less' : α → α → Bool) (x : α) (l : List α)
    (h : ∀ y ∈ l, less y x = less' y x) : insertBy less x l = insertBy less' x l := by
  induction l with
  | nil => rfl
  | cons y ys ih =>
    have hy := h y (by simp)
    have ih' := ih (fun z hz => h z (by simp [hz]))
    simp only [insertBy, hy, ih']

theorem sortBy_congr (less less' : α → α → Bool) (l : List α)
    (h : ∀ a ∈ l, ∀ b ∈ l, less a b = less' a b) : sortBy less l = sortBy less' l := by
  induction l with
  | nil => rfl
  | cons x xs ih =>
    have ih' := ih (fun a ha b hb => h a (by simp [ha]) b (by simp [hb]))
    unfold sortBy
    rw [ih']
    apply insertBy_congr
    intro y hy
    exact h y (by simp [(mem_sortBy less' y xs).mp hy]) x (by simp)

theorem insertBy_map {β : Type} (f : α → β) (less : α → α → Bool) (less' : β → β → Bool)
    (h : ∀ a b, less a b = less' (f a) (f b)) (x : α) (l : List α) :
    (insertBy less x l).map f = insertBy less' (f x) (l.map f) := by
  induction l with
  | nil => rfl
  | cons y ys ih =>
    simp only [insertBy, List.map_cons, ← h]
    by_cases hc : less y x = true
    · simp [hc, ih]
    · simp [hc]

theorem sortBy_map {β : Type} (f : α → β) (less : α → α → Bool) (less' : β → β → Bool)
    (h : ∀ a b, less a b = less' (f a) (f b)) (l : List α) :
    (sortBy less l).map f = sortBy less' (l.map f) := by
  induction l with
  | nil => rfl
  | cons x xs ih =>
    simp only [sortBy, List.map_cons]
    rw [insertBy_map f less less' h, ih]

theorem sortBy_never (less : α → α → Bool) (h : ∀ a b, less a b = false) (l : List α) :
    sortBy less l = l := by
  induction l with
  | nil => rfl
  | cons x xs ih =>
    unfold sortBy
    rw [ih]
    cases xs with
    | nil => rfl
    | cons y ys => simp [insertBy, h]

theorem sortBy_short (less : α → α → Bool) (l : List α) (h : l.length < 2) : sortBy less l = l := by
  match l, h with
  | [], _ => rfl
  | [x], _ => rfl

/-! ### LIMIT -/

theorem applyLimit_prefix (n : Option Nat) (l : List α) : applyLimit n l <+: l := by
  cases n with
  | none => exact List.prefix_refl l
  | some n => exact List.take_prefix n l

theorem applyLimit_map {β : Type} (f : α → β) (n : Option Nat) (l : List α) :
    (applyLimit n l).map f = applyLimit n (l.map f) := by
  cases n with
  | none => rfl
  | some n => simp [applyLimit, List.map_take]

theorem length_applyLimit (n : Option Nat) (l : List α) :
    (applyLimit n l).length = Spec.limitLen n l.length := by
  cases n with
  | none => rfl
  | some n => simp [applyLimit, Spec.limitLen, List.length_take]

theorem mem_of_mem_applyLimit (n : Option Nat) (l : List α) (x : α) (h : x ∈ applyLimit n l) : x ∈ l :=
  (applyLimit_prefix n l).subset h

/-! ### DISTINCT -/

section
variable [DecidableEq α]

theorem distinctAux_of_nodup (seen l : List α) (hn : l.Nodup) (hs : ∀ x ∈ l, x ∉ seen) :
    distinctAux seen l = l := by
  induction l generalizing seen with
  | nil => rfl
  | cons x xs ih =>
    have hx : x ∉ seen := hs x (by simp)
    have hn' := List.nodup_cons.mp hn
    unfold distinctAux
    rw [if_neg hx]
    congr 1
    apply ih _ hn'.2
    intro y hy hmem
    rcases List.mem_cons.mp hmem with rfl | hm
    · exact hn'.1 hy
    · exact hs y (by simp [hy]) hm

theorem distinctStage_of_nodup (d : Bool) (l : List α) (hn : l.Nodup) : distinctStage d l = l := by
  unfold distinctStage
  cases d with
  | false => rfl
  | true => exact distinctAux_of_nodup [] l hn (fun _ _ => by simp)

/-- the loop with its `seen` set keeps exactly the first occurrences (declarative `dedup`) -/
theorem distinctAux_eq (seen l : List α) :
    distinctAux seen l = (Spec.dedup l).filter (fun y => decide (y ∉ seen)) := by
  induction l generalizing seen with
  | nil => rfl
  | cons x xs ih =>
    unfold distinctAux Spec.dedup
    by_cases hx : x ∈ seen
    · rw [if_pos hx, ih, List.filter_cons]
      have : decide (x ∉ seen) = false := by simp [hx]
      rw [this]
      simp only [Bool.false_eq_true, if_false]
      rw [List.filter_filter]
      apply List.filter_congr
      intro y _
      by_cases hy : y = x
      · subst hy; simp [hx]
      · simp [hy]
    · rw [if_neg hx, ih, List.filter_cons]
      have : decide (x ∉ seen) = true := by simp [hx]
      rw [this]
      simp only [if_true]
      congr 1
      rw [List.filter_filter]
      apply List.filter_congr
      intro y _
      by_cases hy : y = x
      · subst hy; simp
      · simp [hy]

theorem distinctAux_nil_eq_dedup (l : List α) : distinctAux [] l = Spec.dedup l := by
  rw [distinctAux_eq]
  simp

theorem mem_dedup (l : List α) (x : α) : x ∈ Spec.dedup l ↔ x ∈ l := by
  induction l with
  | nil => simp [Spec.dedup]
  | cons y ys ih =>
    unfold Spec.dedup
    by_cases h : x = y
    · subst h; simp
    · simp [h, List.mem_filter, ih]

theorem nodup_dedup (l : List α) : (Spec.dedup l).Nodup := by
  induction l with
  | nil => simp [Spec.dedup]
  | cons y ys ih =>
    unfold Spec.dedup
    apply List.nodup_cons.mpr
    refine ⟨?_, ih.filter _⟩
    simp [List.mem_filter]

theorem dedup_of_nodup (l : List α) (hn : l.Nodup) : Spec.dedup l = l := by
  induction l with
  | nil => rfl
  | cons y ys ih =>
    have hn' := List.nodup_cons.mp hn
    unfold Spec.dedup
    rw [ih hn'.2]
    congr 1
    apply List.filter_eq_self.mpr
    intro z hz
    have : z ≠ y := fun h => hn'.1 (h ▸ hz)
    simp [this]

theorem dedup_sublist (l : List α) : (Spec.dedup l).Sublist l := by
  induction l with
  | nil => exact List.Sublist.refl _
  | cons y ys ih =>
    unfold Spec.dedup
    exact List.Sublist.cons_cons y ((List.filter_sublist).trans ih)

/-! ### the oracle's boolean tests -/

theorem nodupB_iff (l : List α) : Spec.nodupB l = true ↔ l.Nodup := by
  induction l with
  | nil => simp [Spec.nodupB]
  | cons x xs ih =>
    simp [Spec.nodupB, ih, List.nodup_cons]

end

theorem sortedBy_iff (less : α → α → Bool) (l : List α) :
    Spec.sortedBy less l = true ↔ SortedBy less l := by
  induction l with
  | nil => simp [Spec.sortedBy, SortedBy]
  | cons x xs ih =>
    simp only [Spec.sortedBy, Bool.and_eq_true, List.all_eq_true, ih, SortedBy, List.pairwise_cons]
    constructor
    · intro h; exact ⟨fun y hy => by simpa using h.1 y hy, h.2⟩
    · intro h; exact ⟨fun y hy => by simpa using h.1 y hy, h.2⟩

end PostAgg
