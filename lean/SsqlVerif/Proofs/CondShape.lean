/-
C12 — helper lemmas, text level: the hand-written recogniser `matchCmp` accepts exactly the texts
`ws field ws OP ws literal ws` (soundness and completeness), `splitOps` cuts a text without the
other connective exactly at the pairs of this one, hence `tryFastCompound` only fires on
`part && part && …` (resp. `||`) with every part a recognised comparison; a condition built by
`newCond` from a text whose shapes denote the compiled predicate (`parseAgrees`) is `Sound`.
Core Lean only.
-/
import SsqlVerif.Model.CondShape
import SsqlVerif.Proofs.Cond
set_option autoImplicit false
set_option linter.unusedSimpArgs false
namespace Cond

/-! ### soundness of `matchCmp` -/

theorem allWs_takeWhile (t : Str) : allWs (t.takeWhile isWs) = true := List.all_takeWhile

theorem dropWs_split (t : Str) : t = t.takeWhile isWs ++ dropWs t :=
  (List.takeWhile_append_dropWhile (p := isWs) (l := t)).symm

theorem takeOp_sound {s : Str} {op : OpTok} {r : Str} (h : takeOp s = some (op, r)) : s = op.text ++ r := by
  unfold takeOp at h
  split at h <;> simp only [Option.some.injEq, Prod.mk.injEq, reduceCtorEq] at h <;>
    (obtain ⟨h1, h2⟩ := h; subst h1; subst h2; rfl)

theorem matchFrac_sound {neg : Bool} {ip t : Str} {l : RawLit} (hip : isDigits ip = true)
    (h : matchFrac neg ip t = some l) :
    ∃ w, allWs w = true ∧ (if neg then ['-'] else []) ++ ip ++ t = l.text ++ w ∧ l.wf = true := by
  unfold matchFrac at h
  split at h
  · rename_i r
    split at h
    · simp at h
    · split at h
      · rename_i hne hws
        simp only [Option.some.injEq] at h
        subst h
        refine ⟨r.dropWhile isDigit, hws, ?_, ?_⟩
        · simp only [RawLit.text, List.append_assoc, List.cons_append]
          rw [List.takeWhile_append_dropWhile]
        · have hfp : isDigits (r.takeWhile isDigit) = true := by simp [isDigits, hne, List.all_takeWhile]
          simp only [RawLit.wf, hip, hfp, Bool.and_self]
      · simp at h
  · split at h
    · rename_i hws
      simp only [Option.some.injEq] at h
      subst h
      exact ⟨t, hws, by simp [RawLit.text], by simp [RawLit.wf, hip]⟩
    · simp at h

theorem matchDigits_sound {neg : Bool} {t : Str} {l : RawLit} (h : matchDigits neg t = some l) :
    ∃ w, allWs w = true ∧ (if neg then ['-'] else []) ++ t = l.text ++ w ∧ l.wf = true := by
  unfold matchDigits at h
  split at h
  · simp at h
  · rename_i hne
    have hip : isDigits (t.takeWhile isDigit) = true := by simp [isDigits, hne, List.all_takeWhile]
    obtain ⟨w, hw, ht, hwf⟩ := matchFrac_sound hip h
    refine ⟨w, hw, ?_, hwf⟩
    rw [← ht, List.append_assoc, List.takeWhile_append_dropWhile]

theorem matchQuoted_sound {t : Str} {l : RawLit} (h : matchQuoted t = some l) :
    ∃ w, allWs w = true ∧ '\'' :: t = l.text ++ w ∧ l.wf = true := by
  unfold matchQuoted at h
  split at h
  · rename_i r hd
    split at h
    · rename_i hws
      simp only [Option.some.injEq] at h
      subst h
      refine ⟨r, hws, ?_, ?_⟩
      · simp only [RawLit.text, List.cons_append, List.append_assoc, List.nil_append, List.cons.injEq, true_and]
        rw [← hd, List.takeWhile_append_dropWhile]
      · simp only [RawLit.wf]; exact List.all_takeWhile
    · simp at h
  · simp at h

theorem matchLit_sound {t : Str} {l : RawLit} (h : matchLit t = some l) :
    ∃ w, allWs w = true ∧ t = l.text ++ w ∧ l.wf = true := by
  unfold matchLit at h
  split at h
  · exact matchQuoted_sound h
  · obtain ⟨w, hw, ht, hwf⟩ := matchDigits_sound h
    exact ⟨w, hw, by simpa using ht, hwf⟩
  · obtain ⟨w, hw, ht, hwf⟩ := matchDigits_sound h
    exact ⟨w, hw, by simpa using ht, hwf⟩

theorem matchIdent_sound {t : Str} {x : Str × Str} (h : matchIdent t = some x) :
    t = x.1 ++ x.2 ∧ isIdent x.1 = true := by
  unfold matchIdent at h
  split at h
  · simp at h
  · rename_i c r
    split at h
    · rename_i hc
      simp only [Option.some.injEq] at h
      subst h
      refine ⟨?_, ?_⟩
      · simp only [List.cons_append, List.takeWhile_append_dropWhile]
      · simp only [isIdent, hc, Bool.true_and]; exact List.all_takeWhile
    · simp at h

/-- the recogniser only fires on texts of the form `ws field ws OP ws literal ws` -/
theorem matchCmp_sound' {t : Str} {r : RawCmp} (h : matchCmp t = some r) :
    ∃ w1 w2 w3 w4, allWs w1 = true ∧ allWs w2 = true ∧ allWs w3 = true ∧ allWs w4 = true ∧
      t = r.render w1 w2 w3 w4 ∧ r.wf = true := by
  unfold matchCmp at h
  cases hi : matchIdent (dropWs t) with
  | none => simp [hi] at h
  | some x =>
    simp only [hi, Option.bind_some] at h
    obtain ⟨hsplit, hid⟩ := matchIdent_sound hi
    unfold matchAfterIdent at h
    cases ho : takeOp (dropWs x.2) with
    | none => simp [ho] at h
    | some y =>
      simp only [ho, Option.bind_some] at h
      obtain ⟨op, r2⟩ := y
      have hop := takeOp_sound ho
      unfold matchAfterOp at h
      cases hl : matchLit (dropWs r2) with
      | none => simp [hl] at h
      | some l =>
        simp only [hl, Option.map_some, Option.some.injEq] at h
        obtain ⟨w4, hw4, hlt, hwf⟩ := matchLit_sound hl
        subst h
        refine ⟨t.takeWhile isWs, x.2.takeWhile isWs, r2.takeWhile isWs, w4,
          allWs_takeWhile _, allWs_takeWhile _, allWs_takeWhile _, hw4, ?_, ?_⟩
        · simp only [RawCmp.render]
          calc t = t.takeWhile isWs ++ dropWs t := dropWs_split t
            _ = t.takeWhile isWs ++ (x.1 ++ x.2) := by rw [hsplit]
            _ = t.takeWhile isWs ++ (x.1 ++ (x.2.takeWhile isWs ++ dropWs x.2)) := by rw [← dropWs_split x.2]
            _ = t.takeWhile isWs ++ (x.1 ++ (x.2.takeWhile isWs ++ (op.text ++ r2))) := by rw [hop]
            _ = t.takeWhile isWs ++ (x.1 ++ (x.2.takeWhile isWs ++ (op.text ++ (r2.takeWhile isWs ++ dropWs r2)))) := by
                rw [← dropWs_split r2]
            _ = _ := by rw [hlt]; simp only [List.append_assoc]
        · simp [RawCmp.wf, hid, hwf]


/-! ### completeness of `matchCmp` -/

/-- the first element of `s`, if any, fails `p` -/
def HeadFails (p : Char → Bool) (s : Str) : Prop := ∀ c ∈ s.head?, p c = false

theorem takeWhile_of_headFails {p : Char → Bool} {s : Str} (h : HeadFails p s) : s.takeWhile p = [] := by
  cases s with
  | nil => rfl
  | cons c r => simp [List.takeWhile_cons, h c (by simp)]

theorem dropWhile_of_headFails {p : Char → Bool} {s : Str} (h : HeadFails p s) : s.dropWhile p = s := by
  cases s with
  | nil => rfl
  | cons c r => simp [List.dropWhile_cons, h c (by simp)]

theorem takeWhile_stop {p : Char → Bool} {a s : Str} (ha : a.all p = true) (h : HeadFails p s) :
    (a ++ s).takeWhile p = a := by
  rw [List.takeWhile_append_of_pos (List.all_eq_true.1 ha), takeWhile_of_headFails h, List.append_nil]

theorem dropWhile_stop {p : Char → Bool} {a s : Str} (ha : a.all p = true) (h : HeadFails p s) :
    (a ++ s).dropWhile p = s := by
  rw [List.dropWhile_append_of_pos (List.all_eq_true.1 ha), dropWhile_of_headFails h]

theorem headFails_append {p : Char → Bool} {a s : Str} (ha : a ≠ []) (h : HeadFails p a) : HeadFails p (a ++ s) := by
  cases a with
  | nil => exact absurd rfl ha
  | cons c r => simpa [HeadFails] using h

theorem headFails_ws_append {p : Char → Bool} {w s : Str} (hw : ∀ c, isWs c = true → p c = false)
    (hwall : allWs w = true) (hs : HeadFails p s) : HeadFails p (w ++ s) := by
  cases w with
  | nil => simpa using hs
  | cons c r =>
    intro d hd
    simp at hd
    subst hd
    exact hw _ (by simp [allWs] at hwall; exact hwall.1)

theorem dropWs_stop {w s : Str} (hw : allWs w = true) (hs : HeadFails isWs s) : dropWs (w ++ s) = s :=
  dropWhile_stop hw hs

/-! character class facts -/

theorem ws_not_identChar (c : Char) (h : isWs c = true) : isIdentChar c = false := by
  simp only [isWs, Bool.or_eq_true, decide_eq_true_eq] at h
  rcases h with (((h | h) | h) | h) | h <;> subst h <;> decide

theorem ws_not_digit (c : Char) (h : isWs c = true) : isDigit c = false := by
  simp only [isWs, Bool.or_eq_true, decide_eq_true_eq] at h
  rcases h with (((h | h) | h) | h) | h <;> subst h <;> decide

theorem identStart_not_ws (c : Char) (h : isIdentStart c = true) : isWs c = false := by
  cases hw : isWs c with
  | false => rfl
  | true =>
    have := ws_not_identChar c hw
    simp [isIdentChar, h] at this

theorem digit_not_ws (c : Char) (h : isDigit c = true) : isWs c = false := by
  cases hw : isWs c with
  | false => rfl
  | true => rw [ws_not_digit c hw] at h; exact absurd h (by decide)

theorem digit_bounds (c : Char) (h : isDigit c = true) : 48 ≤ c.toNat ∧ c.toNat ≤ 57 := by
  simpa [isDigit] using h

theorem ws_vals (c : Char) (h : isWs c = true) : c.toNat = 32 ∨ c.toNat = 9 ∨ c.toNat = 10 ∨ c.toNat = 12 ∨ c.toNat = 13 := by
  simp only [isWs, Bool.or_eq_true, decide_eq_true_eq] at h
  rcases h with (((h | h) | h) | h) | h <;> subst h <;> decide

/-- a byte that would extend a one-byte operator into a two-byte one -/
def opTail (c : Char) : Bool := c = '=' || c = '>'

theorem takeOp_complete (op : OpTok) (rest : Str) (h : HeadFails opTail rest) :
    takeOp (op.text ++ rest) = some (op, rest) := by
  cases rest with
  | nil => cases op <;> rfl
  | cons c r =>
    have hc := h c (by simp)
    simp only [opTail, Bool.or_eq_false_iff, decide_eq_false_iff_not] at hc
    obtain ⟨h1, h2⟩ := hc
    cases op <;> simp only [OpTok.text, List.cons_append, List.nil_append] <;> (try rfl)
    · unfold takeOp; split <;> simp_all
    · unfold takeOp; split <;> simp_all
    · unfold takeOp; split <;> simp_all

/-! literals -/

theorem notQuote_ws (c : Char) (h : isWs c = true) : (c != '\'') = true := by
  simp only [isWs, Bool.or_eq_true, decide_eq_true_eq] at h
  rcases h with (((h | h) | h) | h) | h <;> subst h <;> decide

theorem headFails_ws_or_nil {p : Char → Bool} {w : Str} (hw : ∀ c, isWs c = true → p c = false)
    (hwall : allWs w = true) : HeadFails p w := by
  have := headFails_ws_append (s := []) hw hwall (by intro c hc; simp at hc)
  simpa using this

theorem matchFrac_complete_none (neg : Bool) (ip w : Str) (hw : allWs w = true) :
    matchFrac neg ip w = some (.num neg ip none) := by
  unfold matchFrac
  split
  · rename_i r
    have : isWs '.' = true := by simp [allWs] at hw; exact hw.1
    exact absurd this (by decide)
  · simp [hw]

theorem matchFrac_complete_some (neg : Bool) (ip fp w : Str) (hfp : isDigits fp = true) (hw : allWs w = true) :
    matchFrac neg ip ('.' :: (fp ++ w)) = some (.num neg ip (some fp)) := by
  have hhead : HeadFails isDigit w := headFails_ws_or_nil ws_not_digit hw
  simp only [isDigits, Bool.and_eq_true, Bool.not_eq_true', List.isEmpty_eq_false_iff] at hfp
  unfold matchFrac
  simp only [takeWhile_stop hfp.2 hhead, dropWhile_stop hfp.2 hhead, hw, if_true]
  cases fp with
  | nil => exact absurd rfl hfp.1
  | cons c r => simp

theorem matchDigits_complete (neg : Bool) (ip : Str) (fp : Option Str) (w : Str)
    (hwf : (RawLit.num neg ip fp).wf = true) (hw : allWs w = true) :
    matchDigits neg ((RawLit.num false ip fp).text ++ w) = some (.num neg ip fp) := by
  cases fp with
  | none =>
    simp only [RawLit.wf] at hwf
    have hip := hwf
    simp only [isDigits, Bool.and_eq_true, Bool.not_eq_true', List.isEmpty_eq_false_iff] at hip
    have hhead : HeadFails isDigit w := headFails_ws_or_nil ws_not_digit hw
    unfold matchDigits
    simp only [RawLit.text, Bool.false_eq_true, if_false, List.nil_append,
      takeWhile_stop hip.2 hhead, dropWhile_stop hip.2 hhead]
    rw [matchFrac_complete_none neg ip w hw]
    cases ip with
    | nil => exact absurd rfl hip.1
    | cons c r => simp
  | some fp =>
    simp only [RawLit.wf, Bool.and_eq_true] at hwf
    have hip := hwf.1
    simp only [isDigits, Bool.and_eq_true, Bool.not_eq_true', List.isEmpty_eq_false_iff] at hip
    have hhead : HeadFails isDigit ('.' :: (fp ++ w)) := by intro c hc; simp at hc; subst hc; decide
    unfold matchDigits
    simp only [RawLit.text, Bool.false_eq_true, if_false, List.nil_append, List.append_assoc, List.cons_append,
      takeWhile_stop hip.2 hhead, dropWhile_stop hip.2 hhead]
    rw [matchFrac_complete_some neg ip fp w hwf.2 hw]
    cases ip with
    | nil => exact absurd rfl hip.1
    | cons c r => simp

theorem matchQuoted_complete (raw w : Str) (hraw : raw.all (fun c => c != '\'') = true) (hw : allWs w = true) :
    matchQuoted (raw ++ '\'' :: w) = some (.str raw) := by
  have hhead : HeadFails (fun c => c != '\'') ('\'' :: w) := by intro c hc; simp at hc; subst hc; decide
  unfold matchQuoted
  simp only [takeWhile_stop hraw hhead, dropWhile_stop hraw hhead, hw, if_true]

theorem matchLit_complete (l : RawLit) (w : Str) (hwf : l.wf = true) (hw : allWs w = true) :
    matchLit (l.text ++ w) = some l := by
  cases l with
  | str raw =>
    simp only [RawLit.wf] at hwf
    simp only [RawLit.text, List.cons_append, List.append_assoc, List.nil_append, matchLit]
    exact matchQuoted_complete raw w hwf hw
  | num neg ip fp =>
    have hd := matchDigits_complete neg ip fp w hwf hw
    cases neg with
    | true =>
      have : (RawLit.num true ip fp).text ++ w = '-' :: ((RawLit.num false ip fp).text ++ w) := by
        cases fp <;> simp [RawLit.text]
      rw [this]
      simp only [matchLit]
      exact hd
    | false =>
      -- the text starts with a digit: neither `'` nor `-`
      have hip : isDigits ip = true := by
        cases fp <;> simp only [RawLit.wf, Bool.and_eq_true] at hwf
        · exact hwf
        · exact hwf.1
      simp only [isDigits, Bool.and_eq_true, Bool.not_eq_true', List.isEmpty_eq_false_iff] at hip
      cases ip with
      | nil => exact absurd rfl hip.1
      | cons c r =>
        have hc : isDigit c = true := by simp at hip; exact hip.1
        have hb := digit_bounds c hc
        have htext : (RawLit.num false (c :: r) fp).text ++ w = c :: ((RawLit.num false r fp).text ++ w) := by
          cases fp <;> simp [RawLit.text]
        rw [htext] at hd ⊢
        unfold matchLit
        split
        · rename_i heq
          simp only [List.cons.injEq] at heq
          have := heq.1; subst this; simp at hb
        · rename_i heq
          simp only [List.cons.injEq] at heq
          have := heq.1; subst this; simp at hb
        · exact hd

/-! identifier -/

theorem matchIdent_complete (f rest : Str) (hf : isIdent f = true) (hrest : HeadFails isIdentChar rest) :
    matchIdent (f ++ rest) = some (f, rest) := by
  cases f with
  | nil => simp [isIdent] at hf
  | cons c r =>
    simp only [isIdent, Bool.and_eq_true] at hf
    simp only [matchIdent, List.cons_append, hf.1, if_true, takeWhile_stop hf.2 hrest, dropWhile_stop hf.2 hrest]

theorem opText_head (op : OpTok) : ∃ c r, op.text = c :: r ∧ isIdentChar c = false ∧ isWs c = false := by
  cases op <;> exact ⟨_, _, rfl, by decide, by decide⟩

theorem litText_head (l : RawLit) (hwf : l.wf = true) :
    ∃ c r, l.text = c :: r ∧ opTail c = false ∧ isWs c = false := by
  cases l with
  | str raw => exact ⟨_, _, rfl, by decide, by decide⟩
  | num neg ip fp =>
    have hip : isDigits ip = true := by
      cases fp <;> simp only [RawLit.wf, Bool.and_eq_true] at hwf
      · exact hwf
      · exact hwf.1
    simp only [isDigits, Bool.and_eq_true, Bool.not_eq_true', List.isEmpty_eq_false_iff] at hip
    cases neg with
    | true => exact ⟨'-', (RawLit.num false ip fp).text, by cases fp <;> simp [RawLit.text], by decide, by decide⟩
    | false =>
      cases ip with
      | nil => exact absurd rfl hip.1
      | cons c r =>
        have hc : isDigit c = true := by simp at hip; exact hip.1
        have hb := digit_bounds c hc
        refine ⟨c, (RawLit.num false r fp).text, by cases fp <;> simp [RawLit.text], ?_, digit_not_ws c hc⟩
        simp only [opTail, Bool.or_eq_false_iff, decide_eq_false_iff_not]
        constructor <;> (intro h; subst h; simp at hb)

theorem ws_not_opTail (c : Char) (h : isWs c = true) : opTail c = false := by
  simp only [isWs, Bool.or_eq_true, decide_eq_true_eq] at h
  rcases h with (((h | h) | h) | h) | h <;> subst h <;> decide

/-- every rendering `ws field ws OP ws literal ws` of a well-formed comparison is recognised, as
that comparison -/
theorem matchCmp_complete' (r : RawCmp) (w1 w2 w3 w4 : Str) (hwf : r.wf = true)
    (h1 : allWs w1 = true) (h2 : allWs w2 = true) (h3 : allWs w3 = true) (h4 : allWs w4 = true) :
    matchCmp (r.render w1 w2 w3 w4) = some r := by
  obtain ⟨f, op, l⟩ := r
  simp only [RawCmp.wf, Bool.and_eq_true] at hwf
  obtain ⟨hf, hl⟩ := hwf
  obtain ⟨oc, or_, hot, hoi, how⟩ := opText_head op
  obtain ⟨lc, lr, hlt, hlo, hlw⟩ := litText_head l hl
  -- heads of the successive remainders
  have hL : HeadFails isWs (l.text ++ w4) := by rw [hlt]; intro c hc; simp at hc; subst hc; exact hlw
  have hLo : HeadFails opTail (w3 ++ (l.text ++ w4)) :=
    headFails_ws_append ws_not_opTail h3 (by rw [hlt]; intro c hc; simp at hc; subst hc; exact hlo)
  have hO : HeadFails isWs (op.text ++ (w3 ++ (l.text ++ w4))) := by
    rw [hot]; intro c hc; simp at hc; subst hc; exact how
  have hOi : HeadFails isIdentChar (w2 ++ (op.text ++ (w3 ++ (l.text ++ w4)))) :=
    headFails_ws_append ws_not_identChar h2 (by rw [hot]; intro c hc; simp at hc; subst hc; exact hoi)
  have hF : HeadFails isWs (f ++ (w2 ++ (op.text ++ (w3 ++ (l.text ++ w4))))) := by
    cases f with
    | nil => simp [isIdent] at hf
    | cons c r =>
      simp only [isIdent, Bool.and_eq_true] at hf
      intro d hd; simp at hd; subst hd; exact identStart_not_ws _ hf.1
  simp only [RawCmp.render, List.append_assoc]
  unfold matchCmp
  rw [dropWs_stop h1 hF, matchIdent_complete f _ hf hOi]
  simp only [Option.bind_some, matchAfterIdent]
  rw [dropWs_stop h2 hO, takeOp_complete op _ hLo]
  simp only [Option.bind_some, matchAfterOp]
  rw [dropWs_stop h3 hL, matchLit_complete l w4 hl h4]
  rfl


/-! ### splitting -/

theorem hasPair_cons {a y : Char} {r : Str} (h : hasPair a r = true) : hasPair a (y :: r) = true := by
  cases r with
  | nil => simp [hasPair] at h
  | cons z r' => simp [hasPair, h]

theorem splitOps_ne_nil (t cur : Str) : splitOps t cur ≠ [] := by
  fun_induction splitOps t cur <;> simp_all

theorem joinWith_cons (sep p : Str) {ps : List Str} (h : ps ≠ []) :
    joinWith sep (p :: ps) = p ++ sep ++ joinWith sep ps := by
  cases ps with
  | nil => exact absurd rfl h
  | cons q qs => rfl

/-- with no pair of the other connective in the text, the cut happens exactly at the pairs of
this one: the text is the parts joined by it -/
theorem splitOps_join (s o : Char) (hso : (s = '&' ∧ o = '|') ∨ (s = '|' ∧ o = '&')) (t cur : Str)
    (h : hasPair o t = false) : cur.reverse ++ t = joinWith [s, s] (splitOps t cur) := by
  fun_induction splitOps t cur with
  | case1 cur => simp [joinWith]
  | case2 c cur => simp [joinWith]
  | case3 x y r cur hsep ih =>
    have hr : hasPair o r = false := by
      cases hro : hasPair o r with
      | false => rfl
      | true => rw [hasPair_cons (hasPair_cons hro)] at h; exact absurd h (by decide)
    have hxy : x = s ∧ y = s := by
      have hno : ¬ (x = o ∧ y = o) := by
        intro hxo
        simp [hasPair, hxo.1, hxo.2] at h
      simp only [Bool.or_eq_true, Bool.and_eq_true, decide_eq_true_eq] at hsep
      rcases hso with ⟨hs, ho⟩ | ⟨hs, ho⟩ <;> rcases hsep with ⟨hx, hy⟩ | ⟨hx, hy⟩
      · exact ⟨hx.trans hs.symm, hy.trans hs.symm⟩
      · exact absurd ⟨hx.trans ho.symm, hy.trans ho.symm⟩ hno
      · exact absurd ⟨hx.trans ho.symm, hy.trans ho.symm⟩ hno
      · exact ⟨hx.trans hs.symm, hy.trans hs.symm⟩
    rw [joinWith_cons _ _ (splitOps_ne_nil r []), ← ih hr]
    simp [hxy.1, hxy.2]
  | case4 x y r cur hsep ih =>
    have hr : hasPair o (y :: r) = false := by
      simp only [hasPair, Bool.or_eq_false_iff] at h
      exact h.2
    rw [← ih hr]
    simp


/-! ### `tryFastCompare`, `tryFastCompound`, `newCond` -/

theorem tryFastCompare_some {t : Str} {r : RawCmp} (h : tryFastCompare t = some r) :
    matchCmp t = some r ∧ r.ok = true := by
  unfold tryFastCompare at h
  cases hm : matchCmp t with
  | none => simp [hm] at h
  | some r' =>
    simp only [hm, Option.filter_some] at h
    split at h
    · rename_i hok
      simp only [Option.some.injEq] at h
      subst h
      exact ⟨rfl, hok⟩
    · simp at h

theorem tryFastCompound_some {t : Str} {isAnd : Bool} {rs : List RawCmp}
    (h : tryFastCompound t = some (isAnd, rs)) :
    t.contains '(' = false ∧ t.contains ')' = false ∧
    t = joinWith (if isAnd then ['&', '&'] else ['|', '|']) (splitOps t []) ∧
    allParts (splitOps t []) = some rs := by
  unfold tryFastCompound at h
  split at h
  · simp at h
  · rename_i hpar
    simp only [Bool.or_eq_true, not_or, Bool.not_eq_true] at hpar
    split at h
    · simp at h
    · rename_i hboth
      split at h
      · simp at h
      · rename_i hnone
        cases hp : allParts (splitOps t []) with
        | none => simp [hp] at h
        | some cs =>
          simp only [hp, Option.map_some, Option.some.injEq, Prod.mk.injEq] at h
          obtain ⟨hA, hcs⟩ := h
          subst hcs
          refine ⟨hpar.1, hpar.2, ?_, rfl⟩
          cases hand : hasPair '&' t with
          | true =>
            have hor : hasPair '|' t = false := by
              cases ho : hasPair '|' t with
              | false => rfl
              | true => simp [hand, ho] at hboth
            rw [← hA, hand]
            simpa using splitOps_join '&' '|' (Or.inl ⟨rfl, rfl⟩) t [] hor
          | false =>
            rw [← hA, hand]
            simpa using splitOps_join '|' '&' (Or.inr ⟨rfl, rfl⟩) t [] hand

theorem newCond_sound {t : Str} {p : Pred} {c : CondM} (hparse : parseAgrees t p = true)
    (h : newCond t (some p) = some c) : c.Sound := by
  simp only [newCond, Option.map_some, Option.some.injEq] at h
  subst h
  unfold parseAgrees at hparse
  constructor
  · intro f hf
    simp only at hf
    cases hc : tryFastCompound t with
    | some x => simp [hc] at hf
    | none =>
      simp only [hc, Option.isSome_none, Bool.false_eq_true, if_false] at hf
      cases hr : tryFastCompare t with
      | none => simp [hr] at hf
      | some r =>
        simp only [hr, Option.map_some, Option.some.injEq] at hf
        simp only [hc, hr, decide_eq_true_eq] at hparse
        rw [hparse, hf]
  · intro isAnd parts hcomp
    simp only at hcomp
    cases hc : tryFastCompound t with
    | none => simp [hc] at hcomp
    | some x =>
      obtain ⟨a, rs⟩ := x
      simp only [hc, Option.map_some, Option.some.injEq, Prod.mk.injEq] at hcomp
      simp only [hc, decide_eq_true_eq] at hparse
      rw [← hcomp.1, ← hcomp.2]
      exact hparse

end Cond
