/-
C03 helper lemmas: each aggregator's fold of `add` over a list, followed by `result`, is the
declarative definition `AggSpec.value` — for every number type `ν` (no arithmetic law is used,
so this holds for float64 as well as for exact arithmetic).
-/
import SsqlVerif.Model.Agg
import SsqlVerif.Spec.Agg
set_option autoImplicit false
set_option linter.unusedSectionVars false

namespace AggProofs
open Agg AggSpec NumOps

variable {ν : Type} [NumOps ν]

/-! ### generic fold lemmas -/

theorem foldl_optStep {σ α β : Type} (t : α → Option β) (g : σ → β → σ) (s : σ) (l : List α) :
    l.foldl (fun s v => match t v with | none => s | some x => g s x) s
      = (l.filterMap t).foldl g s := by
  induction l generalizing s with
  | nil => rfl
  | cons a l ih =>
    simp only [List.foldl_cons, List.filterMap_cons]
    cases h : t a with
    | none => simpa using ih s
    | some x => simpa using ih (g s x)

theorem foldl_snoc_list {α : Type} (s l : List α) : l.foldl (fun acc x => acc ++ [x]) s = s ++ l := by
  induction l generalizing s with
  | nil => simp
  | cons a l ih => simp [ih]

theorem rev_ind {α : Type} {P : List α → Prop} (h0 : P [])
    (hs : ∀ l x, P l → P (l ++ [x])) : ∀ l, P l := by
  intro l
  rw [← List.reverse_reverse l]
  generalize l.reverse = r
  induction r with
  | nil => exact h0
  | cons x r ih => rw [List.reverse_cons]; exact hs _ _ ih

theorem getLast?_getD_cons {α : Type} (b : α) (l : List α) (a v : α) :
    (b :: l).getLast?.getD a = (b :: l).getLast?.getD v := by
  cases h : (b :: l).getLast? with
  | none => simp [List.getLast?_eq_none_iff] at h
  | some x => rfl

@[simp] theorem isNull_null : (Val.null : Val ν).isNull = true := rfl
@[simp] theorem isNull_int (i : Int) : (Val.int i : Val ν).isNull = false := rfl
@[simp] theorem isNull_flt (x : ν) : (Val.flt x : Val ν).isNull = false := rfl
@[simp] theorem isNull_str (s : Str) : (Val.str s : Val ν).isNull = false := rfl
@[simp] theorem isNull_bool (b : Bool) : (Val.bool b : Val ν).isNull = false := rfl

/-! ### sum -/

theorem sum_addNum_fold (xs : List ν) (z : ν) (h : Bool) :
    xs.foldl SumSt.addNum ⟨z, h⟩ = ⟨xs.foldl add z, h || !xs.isEmpty⟩ := by
  induction xs generalizing z h with
  | nil => simp
  | cons x xs ih => simp [SumSt.addNum, ih]

theorem sum_fold (e : Env ν) (l : List (Val ν)) (s : SumSt ν) :
    l.foldl (SumSt.add e) s = (nums e l).foldl SumSt.addNum s := by
  unfold nums
  exact foldl_optStep (toFloat e) SumSt.addNum s l

theorem sum_run (e : Env ν) (l : List (Val ν)) :
    (l.foldl (SumSt.add e) SumSt.new).result = numOrNull (nums e l) total := by
  rw [sum_fold, SumSt.new, sum_addNum_fold]
  cases h : nums e l with
  | nil => simp [SumSt.result, numOrNull]
  | cons x xs => simp [SumSt.result, numOrNull, total]

/-! ### avg -/

theorem avg_addNum_fold (xs : List ν) (z : ν) (n : Nat) :
    xs.foldl AvgSt.addNum ⟨z, n⟩ = ⟨xs.foldl add z, n + xs.length⟩ := by
  induction xs generalizing z n with
  | nil => simp
  | cons x xs ih => simp [AvgSt.addNum, ih]; omega

theorem avg_fold (e : Env ν) (l : List (Val ν)) (s : AvgSt ν) :
    l.foldl (AvgSt.add e) s = (nums e l).foldl AvgSt.addNum s := by
  unfold nums
  exact foldl_optStep (toFloat e) AvgSt.addNum s l

theorem avg_run (e : Env ν) (l : List (Val ν)) :
    (l.foldl (AvgSt.add e) AvgSt.new).result = numOrNull (nums e l) average := by
  rw [avg_fold, AvgSt.new, avg_addNum_fold]
  cases h : nums e l with
  | nil => simp [AvgSt.result, numOrNull]
  | cons x xs => simp [AvgSt.result, numOrNull, average, total]

/-! ### min / max -/

theorem min_fold (e : Env ν) (l : List (Val ν)) (s : ExtSt ν) :
    l.foldl (ExtSt.addMin e) s = (nums e l).foldl ExtSt.minNum s := by
  unfold nums
  exact foldl_optStep (toFloat e) ExtSt.minNum s l

theorem max_fold (e : Env ν) (l : List (Val ν)) (s : ExtSt ν) :
    l.foldl (ExtSt.addMax e) s = (nums e l).foldl ExtSt.maxNum s := by
  unfold nums
  exact foldl_optStep (toFloat e) ExtSt.maxNum s l

theorem minNum_fold_started (xs : List ν) (m : ν) :
    xs.foldl ExtSt.minNum ⟨m, false⟩ = ⟨xs.foldl (fun m y => if lt y m then y else m) m, false⟩ := by
  induction xs generalizing m with
  | nil => rfl
  | cons x xs ih =>
    simp only [List.foldl_cons, ExtSt.minNum, Bool.false_or]
    by_cases h : lt x m = true
    · simp [h, ih]
    · simp [h, ih]

theorem maxNum_fold_started (xs : List ν) (m : ν) :
    xs.foldl ExtSt.maxNum ⟨m, false⟩ = ⟨xs.foldl (fun m y => if lt m y then y else m) m, false⟩ := by
  induction xs generalizing m with
  | nil => rfl
  | cons x xs ih =>
    simp only [List.foldl_cons, ExtSt.maxNum, Bool.false_or]
    by_cases h : lt m x = true
    · simp [h, ih]
    · simp [h, ih]

theorem min_run (e : Env ν) (l : List (Val ν)) :
    (l.foldl (ExtSt.addMin e) ExtSt.new).result
      = optNum (least (nums e l)) := by
  rw [min_fold]
  cases h : nums e l with
  | nil => simp [ExtSt.new, ExtSt.result, least, optNum]
  | cons x xs =>
    simp only [List.foldl_cons, ExtSt.new, ExtSt.minNum, Bool.true_or, if_true, least]
    rw [minNum_fold_started]
    simp [ExtSt.result, optNum]

theorem max_run (e : Env ν) (l : List (Val ν)) :
    (l.foldl (ExtSt.addMax e) ExtSt.new).result
      = optNum (greatest (nums e l)) := by
  rw [max_fold]
  cases h : nums e l with
  | nil => simp [ExtSt.new, ExtSt.result, greatest, optNum]
  | cons x xs =>
    simp only [List.foldl_cons, ExtSt.new, ExtSt.maxNum, Bool.true_or, if_true, greatest]
    rw [maxNum_fold_started]
    simp [ExtSt.result, optNum]

/-! ### count -/

theorem count_fold (l : List (Val ν)) (n : Nat) :
    l.foldl countAdd n = n + countNonNull l := by
  induction l generalizing n with
  | nil => simp [countNonNull]
  | cons v l ih =>
    simp only [List.foldl_cons, ih, countAdd, countNonNull, List.filter_cons]
    cases h : v.isNull <;> simp <;> omega

/-! ### value-list aggregators -/

theorem nums_fold (e : Env ν) (l : List (Val ν)) (s : List ν) :
    l.foldl (numsAdd e) s = s ++ nums e l := by
  have h := foldl_optStep (toFloat e) (fun (acc : List ν) x => acc ++ [x]) s l
  have h2 : (fun (s : List ν) v => match toFloat e v with | none => s | some x => s ++ [x]) = numsAdd e := by
    funext s v; rfl
  rw [h2] at h
  rw [h, foldl_snoc_list]; rfl

theorem anys_fold (l s : List (Val ν)) : l.foldl anysAdd s = s ++ l := by
  have : (anysAdd : List (Val ν) → Val ν → List (Val ν)) = fun acc x => acc ++ [x] := by
    funext a x; rfl
  rw [this, foldl_snoc_list]

/-- the squared-deviation loop is Σ (x-m)² in arrival order -/
theorem sqDevSum_eq (l : List ν) (m : ν) :
    sqDevSum l m = total (l.map fun v => mul (sub v m) (sub v m)) := by
  unfold sqDevSum total
  rw [List.foldl_map]
  rfl

theorem mean_eq (l : List ν) : mean l = average l := rfl

theorem stddev_eq (l : List ν) : stddevResult l = sampleStdDev l := by
  unfold stddevResult sampleStdDev sqDevTotal
  rw [sqDevSum_eq, mean_eq]

theorem var_eq (l : List ν) : varResult l = populationVariance l := by
  unfold varResult populationVariance sqDevTotal
  rw [sqDevSum_eq, mean_eq]

theorem vars_eq (l : List ν) : varsResult l = sampleVariance l := by
  unfold varsResult sampleVariance sqDevTotal
  rw [sqDevSum_eq, mean_eq]

/-! ### first / last / nth -/

theorem first_fold_started (l : List (Val ν)) (v : Val ν) :
    l.foldl FirstSt.add ⟨v, true⟩ = ⟨v, true⟩ := by
  induction l with
  | nil => rfl
  | cons a l ih => simp [FirstSt.add, ih]

theorem first_run (l : List (Val ν)) :
    (l.foldl FirstSt.add FirstSt.new).value = firstOf l := by
  cases l with
  | nil => rfl
  | cons a l => simp [FirstSt.new, FirstSt.add, first_fold_started, firstOf]

theorem last_fold (l : List (Val ν)) (v : Val ν) :
    l.foldl (fun (_ : Val ν) x => x) v = (l.getLast?).getD v := by
  induction l generalizing v with
  | nil => rfl
  | cons a l ih =>
    simp only [List.foldl_cons, ih]
    cases l with
    | nil => rfl
    | cons b l => simp only [List.getLast?_cons_cons]; exact getLast?_getD_cons b l a v

theorem nth_eq (n : Nat) (l : List (Val ν)) : nthResult n l = nthOf n l := by
  unfold nthResult nthOf
  by_cases hn : n = 0
  · simp [hn]
  · by_cases hl : l.length ≥ n
    · have : n - 1 < l.length := by omega
      simp [hn, hl, Nat.pos_of_ne_zero hn, List.getD_eq_getElem?_getD]
    · have h2 : l.length ≤ n - 1 := by omega
      simp [hn, hl, List.getElem?_eq_none h2]

/-! ### merge_agg -/

theorem merge_eq (e : Env ν) (l : List (Val ν)) : mergeResult e l = mergedOf e l := by
  cases l with
  | nil => rfl
  | cons a l => simp [mergeResult, mergedOf]

/-! ### deduplicate -/

theorem distinct_snoc {α β : Type} [DecidableEq β] (key : α → β) (l : List α) (x : α) :
    distinct key (l ++ [x]) =
      if l.any (fun y => decide (key y = key x)) then distinct key l else distinct key l ++ [x] := by
  unfold distinct
  simp only [List.reverse_append, List.reverse_cons, List.reverse_nil, List.nil_append,
    List.singleton_append, distinctRev, List.any_reverse]

theorem mem_distinct_keys {α β : Type} [DecidableEq β] (key : α → β) (l : List α) (b : β) :
    b ∈ (distinct key l).map key ↔ b ∈ l.map key := by
  induction l using rev_ind with
  | h0 => simp [distinct, distinctRev]
  | hs l x ih =>
    rw [distinct_snoc]
    by_cases h : l.any (fun y => decide (key y = key x)) = true
    · simp only [h, if_true, ih, List.map_append, List.mem_append, List.map_cons, List.map_nil,
        List.mem_singleton]
      constructor
      · exact Or.inl
      · rintro (h1 | h1)
        · exact h1
        · subst h1
          simp only [List.any_eq_true, decide_eq_true_eq] at h
          obtain ⟨y, hy, hk⟩ := h
          exact List.mem_map.mpr ⟨y, hy, hk⟩
    · simp only [h, List.map_append, List.mem_append, List.map_cons, List.map_nil,
        List.mem_singleton, Bool.false_eq_true, if_false]
      rw [ih]

theorem dedup_fold (e : Env ν) (l : List (Val ν)) :
    l.foldl (DedupSt.add e) DedupSt.new = ⟨(distinct (keyOf e) l).map (keyOf e), distinct (keyOf e) l⟩ := by
  induction l using rev_ind with
  | h0 => simp [DedupSt.new, distinct, distinctRev]
  | hs l x ih =>
    rw [List.foldl_append, ih, distinct_snoc]
    simp only [List.foldl_cons, List.foldl_nil, DedupSt.add]
    have hmem : ((distinct (keyOf e) l).map (keyOf e)).contains (keyOf e x)
        = l.any (fun y => decide (keyOf e y = keyOf e x)) := by
      rw [Bool.eq_iff_iff]
      simp only [List.contains_iff_mem, List.any_eq_true, decide_eq_true_eq]
      rw [mem_distinct_keys]
      simp [List.mem_map]
    rw [hmem]
    by_cases h : l.any (fun y => decide (keyOf e y = keyOf e x)) = true
    · simp [h]
    · simp [h]

/-! ### sorting: the model's insertion sort and the specification's merge sort -/

theorem insertSorted_perm (x : ν) (l : List ν) : (insertSorted x l).Perm (x :: l) := by
  induction l with
  | nil => exact List.Perm.refl _
  | cons y ys ih =>
    unfold insertSorted
    by_cases h : sortLt x y = true
    · simp [h]
    · simp only [h]
      exact (List.Perm.cons y ih).trans (List.Perm.swap x y ys)

theorem isort_perm (l : List ν) : (isort l).Perm l := by
  induction l with
  | nil => exact List.Perm.refl _
  | cons x xs ih =>
    unfold isort
    exact (insertSorted_perm x (isort xs)).trans (List.Perm.cons x ih)

theorem isort_length (l : List ν) : (isort l).length = l.length := (isort_perm l).length_eq

/-! ### the whole run of one aggregator object -/

theorem nums_new_fold (e : Env ν) (k : Kind) (l : List (Val ν)) :
    l.foldl (St.add e) (.nums k []) = .nums k (nums e l) := by
  have : ∀ s : List ν, l.foldl (St.add e) (.nums k s) = .nums k (l.foldl (numsAdd e) s) := by
    induction l with
    | nil => intro s; rfl
    | cons a l ih => intro s; simp only [List.foldl_cons, St.add, ih]
  rw [this, nums_fold]; simp

theorem anys_new_fold (e : Env ν) (k : Kind) (l : List (Val ν)) :
    l.foldl (St.add e) (.anys k []) = .anys k l := by
  have : ∀ s : List (Val ν), l.foldl (St.add e) (.anys k s) = .anys k (l.foldl anysAdd s) := by
    induction l with
    | nil => intro s; rfl
    | cons a l ih => intro s; simp only [List.foldl_cons, St.add, ih]
  rw [this, anys_fold]; simp

theorem sum_st_fold (e : Env ν) (l : List (Val ν)) (s : SumSt ν) :
    l.foldl (St.add e) (.sum s) = .sum (l.foldl (SumSt.add e) s) := by
  induction l generalizing s with
  | nil => rfl
  | cons a l ih => simp only [List.foldl_cons, St.add, ih]

theorem avg_st_fold (e : Env ν) (l : List (Val ν)) (s : AvgSt ν) :
    l.foldl (St.add e) (.avg s) = .avg (l.foldl (AvgSt.add e) s) := by
  induction l generalizing s with
  | nil => rfl
  | cons a l ih => simp only [List.foldl_cons, St.add, ih]

theorem min_st_fold (e : Env ν) (l : List (Val ν)) (s : ExtSt ν) :
    l.foldl (St.add e) (.min s) = .min (l.foldl (ExtSt.addMin e) s) := by
  induction l generalizing s with
  | nil => rfl
  | cons a l ih => simp only [List.foldl_cons, St.add, ih]

theorem max_st_fold (e : Env ν) (l : List (Val ν)) (s : ExtSt ν) :
    l.foldl (St.add e) (.max s) = .max (l.foldl (ExtSt.addMax e) s) := by
  induction l generalizing s with
  | nil => rfl
  | cons a l ih => simp only [List.foldl_cons, St.add, ih]

theorem count_st_fold (e : Env ν) (l : List (Val ν)) (n : Nat) :
    l.foldl (St.add e) (.count n) = .count (l.foldl countAdd n) := by
  induction l generalizing n with
  | nil => rfl
  | cons a l ih => simp only [List.foldl_cons, St.add, ih]

theorem first_st_fold (e : Env ν) (l : List (Val ν)) (s : FirstSt ν) :
    l.foldl (St.add e) (.first s) = .first (l.foldl FirstSt.add s) := by
  induction l generalizing s with
  | nil => rfl
  | cons a l ih => simp only [List.foldl_cons, St.add, ih]

theorem last_st_fold (e : Env ν) (l : List (Val ν)) (v : Val ν) :
    l.foldl (St.add e) (.last v) = .last ((l.getLast?).getD v) := by
  induction l generalizing v with
  | nil => rfl
  | cons a l ih =>
    simp only [List.foldl_cons, St.add, ih]
    cases l with
    | nil => rfl
    | cons b l => simp only [List.getLast?_cons_cons]; rw [getLast?_getD_cons b l a v]

theorem dedup_st_fold (e : Env ν) (l : List (Val ν)) (s : DedupSt ν) :
    l.foldl (St.add e) (.dedup s) = .dedup (l.foldl (DedupSt.add e) s) := by
  induction l generalizing s with
  | nil => rfl
  | cons a l ih => simp only [List.foldl_cons, St.add, ih]

end AggProofs
