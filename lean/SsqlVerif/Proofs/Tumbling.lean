/-
Helper lemmas for C01/C02: the tumbling-window state machine.
Core Lean only.
-/
import SsqlVerif.Model.Tumbling
set_option autoImplicit false
set_option linter.unusedVariables false
set_option linter.unusedSimpArgs false

namespace Tumbling
open Wm

/-! ### alignment -/

theorem alignDown_le (t size : Int) (ht : 0 ≤ t) (hs : 0 < size) : alignDown t size ≤ t := by
  unfold alignDown
  rw [Int.tdiv_eq_ediv_of_nonneg ht]
  exact Int.ediv_mul_le t (Int.ne_of_gt hs)

theorem lt_alignDown_add (t size : Int) (ht : 0 ≤ t) (hs : 0 < size) : t < alignDown t size + size := by
  unfold alignDown
  rw [Int.tdiv_eq_ediv_of_nonneg ht]
  have := Int.lt_ediv_add_one_mul_self t hs
  rw [Int.add_mul, Int.one_mul] at this
  exact this

theorem alignDown_dvd (t size : Int) : size ∣ alignDown t size := by
  unfold alignDown; exact Int.dvd_mul_left _ _

theorem le_alignDown_of_dvd (c t size : Int) (ht : 0 ≤ t) (hs : 0 < size)
    (hd : size ∣ c) (hle : c ≤ t) : c ≤ alignDown t size := by
  obtain ⟨k, rfl⟩ := hd
  unfold alignDown
  rw [Int.tdiv_eq_ediv_of_nonneg ht, Int.mul_comm size k]
  apply Int.mul_le_mul_of_nonneg_right _ (Int.le_of_lt hs)
  apply Int.le_ediv_of_mul_le hs
  rw [Int.mul_comm]; exact hle

/-- the row lies in its own aligned interval -/
theorem inSlot_alignDown (size : Int) (r : Row) (ht : 0 ≤ r.ts) (hs : 0 < size) :
    inSlot size (alignDown r.ts size) r = true := by
  simp only [inSlot, Bool.and_eq_true, decide_eq_true_eq]
  exact ⟨alignDown_le _ _ ht hs, lt_alignDown_add _ _ ht hs⟩

/-- half-open intervals on the size lattice partition time: a row lies in at most one -/
theorem inSlot_unique (size a b : Int) (r : Row) (hs : 0 < size) (ha : size ∣ a) (hb : size ∣ b)
    (h1 : inSlot size a r = true) (h2 : inSlot size b r = true) : a = b := by
  simp only [inSlot, Bool.and_eq_true, decide_eq_true_eq] at h1 h2
  obtain ⟨k, rfl⟩ := ha
  obtain ⟨m, rfl⟩ := hb
  have hkm : k = m := by
    rcases Int.lt_trichotomy k m with h | h | h
    · exfalso
      have : size * (k + 1) ≤ size * m := Int.mul_le_mul_of_nonneg_left (by omega) (Int.le_of_lt hs)
      rw [Int.mul_add, Int.mul_one] at this; omega
    · exact h
    · exfalso
      have : size * (m + 1) ≤ size * k := Int.mul_le_mul_of_nonneg_left (by omega) (Int.le_of_lt hs)
      rw [Int.mul_add, Int.mul_one] at this; omega
  rw [hkm]

theorem inSlot_false_ge (size c : Int) (x : Row) (hc : c ≤ x.ts) (h : inSlot size c x = false) :
    c + size ≤ x.ts := by
  simp only [inSlot, Bool.and_eq_false_iff, decide_eq_false_iff_not] at h
  omega

/-! ### emissions of one step -/

def rowsOf (es : List Emission) : List Row := es.flatMap (·.rows)

theorem rowsOf_append (a b : List Emission) : rowsOf (a ++ b) = rowsOf a ++ rowsOf b := by
  simp [rowsOf]

/-- rows accepted (buffered for a first firing) by one op -/
def acceptedBy (s : TW) : Op → List Row
  | .add r now => match fate s r now with | .keep => [r] | _ => []
  | _ => []

def acceptedRows (s : TW) : List Op → List Row
  | [] => []
  | op :: ops => acceptedBy s op ++ acceptedRows (step s op).1 ops

/-! ### ALLOWEDLATENESS = 0: no triggered-window bookkeeping, no late emissions -/

structure L0 (s : TW) : Prop where
  hl : s.lateness = 0
  hf : s.fired = []

theorem fate_l0 (s : TW) (r : Row) (now : Int) (h : L0 s) :
    fate s r now = .keep ∨ fate s r now = .drop := by
  unfold fate
  split
  · split
    · exact Or.inl rfl
    · have : ¬ (0 < s.lateness) := by rw [h.hl]; decide
      rw [if_neg this]; exact Or.inr rfl
  · exact Or.inl rfl

theorem stepAdd_l0 (s : TW) (r : Row) (now : Int) (h : L0 s) :
    L0 (stepAdd s r now).1 ∧ (stepAdd s r now).2 = [] := by
  rcases fate_l0 s r now h with hf | hf
  · exact ⟨⟨h.hl, by simp [stepAdd, addFired, hf, h.hf]⟩, by simp [stepAdd, addEmit, hf]⟩
  · exact ⟨⟨h.hl, by simp [stepAdd, addFired, hf, h.hf]⟩, by simp [stepAdd, addEmit, hf]⟩

theorem firedAfter_l0 (s : TW) (c : Int) (h : L0 s) : firedAfter s c = [] := by
  unfold firedAfter
  have : ¬ (0 < s.lateness) := by rw [h.hl]; decide
  rw [if_neg this]; exact h.hf

theorem closeExpired_data_l0 (s : TW) (w : Int) (h : L0 s) : (closeExpired s w).data = s.data := by
  simp [closeExpired, expired, h.hf]

theorem stepIter_l0 (s : TW) (h : L0 s) : L0 (stepIter s).1 := by
  unfold stepIter
  split
  · split
    · unfold fireOrSkip
      split
      · exact ⟨h.hl, h.hf⟩
      · exact ⟨h.hl, firedAfter_l0 s _ h⟩
    · exact ⟨h.hl, by simp [closeExpired, h.hf]⟩
  · exact ⟨h.hl, h.hf⟩
  · exact h

theorem step_l0 (s : TW) (op : Op) (h : L0 s) : L0 (step s op).1 := by
  cases op with
  | add r now => exact (stepAdd_l0 s r now h).1
  | addNoTs => exact h
  | tick idle now => exact ⟨h.hl, h.hf⟩
  | pop =>
    simp only [step, stepPop]
    split
    · exact ⟨h.hl, h.hf⟩
    · exact h
  | iter => exact stepIter_l0 s h

/-! ### conservation: every accepted row is buffered or was emitted, exactly once -/

theorem count_filter_split (p : Row → Bool) (x : Row) (l : List Row) :
    (l.filter p).count x + (l.filter (fun r => !p r)).count x = l.count x := by
  induction l with
  | nil => simp
  | cons y ys ih =>
    by_cases hp : p y <;> simp [List.filter_cons, hp, List.count_cons] <;> omega

theorem fireOrSkip_conserve (s : TW) (c : Int) (x : Row) :
    (fireOrSkip s c).1.data.count x + (rowsOf (fireOrSkip s c).2).count x = s.data.count x := by
  unfold fireOrSkip
  split
  · simp [rowsOf]
  · simp [rowsOf, slotRows, restRows, count_filter_split, Nat.add_comm]

theorem step_conserve (s : TW) (op : Op) (x : Row) (h : L0 s) :
    (step s op).1.data.count x + (rowsOf (step s op).2).count x
      = s.data.count x + (acceptedBy s op).count x := by
  cases op with
  | add r now =>
    rcases fate_l0 s r now h with hf | hf <;>
      simp [step, stepAdd, addData, addEmit, acceptedBy, hf, rowsOf]
  | addNoTs => simp [step, acceptedBy, rowsOf]
  | tick idle now => simp [step, acceptedBy, rowsOf]
  | pop =>
    simp only [step, stepPop, acceptedBy, rowsOf]
    split <;> simp
  | iter =>
    simp only [step, stepIter, acceptedBy]
    split
    · split
      · simpa using fireOrSkip_conserve s _ x
      · simp [rowsOf, closeExpired_data_l0 s _ h]
    · simp [rowsOf]
    · simp [rowsOf]

theorem run_conserve (s : TW) (ops : List Op) (x : Row) (h : L0 s) :
    (run s ops).1.data.count x + (rowsOf (run s ops).2).count x
      = s.data.count x + (acceptedRows s ops).count x := by
  induction ops generalizing s with
  | nil => simp [run, acceptedRows, rowsOf]
  | cons op ops ih =>
    have h1 := step_conserve s op x h
    have h2 := ih (step s op).1 (step_l0 s op h)
    simp only [run, acceptedRows, rowsOf_append, List.count_append] at *
    omega

end Tumbling
