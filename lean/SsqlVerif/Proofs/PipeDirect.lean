/-
The direct pipeline on the configuration of a well-formed SELECT list: `projectDirectRow` returns the
literal columns followed by the ordinary columns, i.e. a permutation of the spec's column list.
-/
import SsqlVerif.Proofs.PipeProject
set_option autoImplicit false

namespace Pipe
open PipeSpec

def notLit : Item → Bool := fun it => !isLit it

def litExpr (it : Item) : FieldExpr :=
  match it.src with
  | .lit s => .lit s
  | _ => .other []

theorem exprOf_lit (it : Item) (h : isLit it = true) : exprOf it = some (outName it, litExpr it) := by
  unfold isLit at h; unfold exprOf litExpr
  cases hs : it.src <;> rw [hs] at h <;> simp at h ⊢

theorem exprOf_notLit (it : Item) (h : isLit it = false) : exprOf it = none := by
  unfold isLit at h; unfold exprOf
  cases hs : it.src <;> rw [hs] at h <;> simp at h ⊢

/-- the `FieldExpressions` map of a list whose literal names are distinct: one entry per literal, in order -/
theorem exprMap_eq (items : List Item) (acc : List (Str × FieldExpr))
    (hnd : (acc.map Prod.fst ++ (items.filter isLit).map outName).Nodup) :
    exprMap items acc = acc ++ (items.filter isLit).map fun it => (outName it, litExpr it) := by
  induction items generalizing acc with
  | nil => simp [exprMap]
  | cons it rest ih =>
    cases hl : isLit it with
    | false =>
      simp only [exprMap, exprOf_notLit it hl, List.filter_cons, hl] at hnd ⊢
      exact ih acc (by simpa using hnd)
    | true =>
      simp only [List.filter_cons, hl, if_true, List.map_cons] at hnd ⊢
      simp only [exprMap, exprOf_lit it hl]
      have hnot : outName it ∉ acc.map Prod.fst := by
        intro hm
        have := (List.nodup_append.mp hnd).2.2 _ hm (outName it) (by simp)
        exact this rfl
      rw [setExpr_append_of_not_mem _ _ _ hnot, ih]
      · simp
      · simpa using hnd

theorem projectExprs_eq (env : Env) (row : Row) (exprs : List (Str × FieldExpr)) (res : Row)
    (hnd : (keysOf res ++ exprs.map Prod.fst).Nodup) :
    projectExprs env row exprs res = res ++ exprs.map fun ne => (ne.1, evalFieldExpr env row ne.2) := by
  induction exprs generalizing res with
  | nil => simp [projectExprs]
  | cons ne rest ih =>
    obtain ⟨n, e⟩ := ne
    simp only [projectExprs, List.map_cons] at hnd ⊢
    have hnot : n ∉ keysOf res := by
      intro hm
      exact (List.nodup_append.mp hnd).2.2 _ hm n (by simp) rfl
    rw [setKey_append_of_not_mem _ _ _ hnot, ih]
    · simp
    · simpa [keysOf_append, keysOf] using hnd

/-- the loop over `SimpleFields`: literal items are skipped (they are expression fields), every other
item appends its column -/
theorem projectSimple_items (cfg : Config) (env : Env) (row : Row) (items : List Item) (res : Row)
    (hwf : ∀ it ∈ items, itemWF it = true)
    (hexpr : ∀ it ∈ items, isExprName cfg (outName it) = isLit it)
    (hnd : (keysOf res ++ (items.filter notLit).map outName).Nodup) :
    projectSimple cfg env row (items.map fun it => compileField (simpleSpec it)) res =
      .ok (res ++ (items.filter notLit).map (colOf row)) := by
  induction items generalizing res with
  | nil => simp [projectSimple]
  | cons it rest ih =>
    have hw := hwf it (by simp)
    have hx := hexpr it (by simp)
    obtain ⟨hname, hsel⟩ := compileField_outputName it hw
    have hwf' : ∀ it' ∈ rest, itemWF it' = true := fun it' h => hwf it' (by simp [h])
    have hexpr' : ∀ it' ∈ rest, isExprName cfg (outName it') = isLit it' := fun it' h => hexpr it' (by simp [h])
    simp only [List.map_cons, projectSimple]
    cases hl : isLit it with
    | true =>
      have hstep : processSimple cfg env row (compileField (simpleSpec it)) res = .ok res := by
        simp [processSimple, hsel, hname, hx, hl]
      rw [hstep]
      simp only [List.filter_cons, notLit, hl, Bool.not_true, Bool.false_eq_true, if_false] at hnd ⊢
      exact ih res hwf' hexpr' hnd
    | false =>
      obtain ⟨hlit, hcall, hval⟩ := compileField_plain it hw hl row
      have hstep : processSimple cfg env row (compileField (simpleSpec it)) res =
          .ok (setKey (outName it) (itemValue row it.src) res) := by
        simp [processSimple, hsel, hname, hx, hl, hlit, hcall, hval]
      rw [hstep]
      simp only [List.filter_cons, notLit, hl, Bool.not_false, if_true, List.map_cons] at hnd ⊢
      have hnot : outName it ∉ keysOf res := by
        intro hm
        exact (List.nodup_append.mp hnd).2.2 _ hm (outName it) (by simp) rfl
      rw [setKey_append_of_not_mem _ _ _ hnot]
      have := ih (res ++ [(outName it, itemValue row it.src)]) hwf' hexpr'
        (by simpa [keysOf_append, keysOf] using hnd)
      rw [this]
      simp [colOf]

theorem copyAll_eq (cfg : Config) (hc : cfg.fieldExprs = []) (row res : Row)
    (hnd : (keysOf res ++ keysOf row).Nodup) : copyAll cfg row res = res ++ row := by
  induction row generalizing res with
  | nil => simp [copyAll]
  | cons kv rest ih =>
    obtain ⟨k, v⟩ := kv
    have hx : isExprName cfg k = false := by simp [isExprName, hc]
    simp only [copyAll, hx, Bool.false_eq_true, if_false]
    have hnot : k ∉ keysOf res := by
      intro hm
      exact (List.nodup_append.mp hnd).2.2 _ hm k (by simp [keysOf]) rfl
    rw [setKey_append_of_not_mem _ _ _ hnot, ih]
    · simp
    · simpa [keysOf_append, keysOf] using hnd

/-! ### names -/

theorem nodup_split (items : List Item) (hnd : (items.map outName).Nodup) :
    ((items.filter isLit).map outName ++ (items.filter notLit).map outName).Nodup := by
  have hp := (List.filter_append_perm isLit items).map outName
  have : ((items.filter isLit ++ items.filter (fun x => !isLit x)).map outName).Nodup :=
    (List.Perm.nodup_iff hp).mpr hnd
  unfold notLit
  simpa using this

theorem isExprName_items (items : List Item) (hnd : (items.map outName).Nodup) (cfg : Config)
    (hcfg : cfg.fieldExprs.map Prod.fst = (items.filter isLit).map outName) :
    ∀ it ∈ items, isExprName cfg (outName it) = isLit it := by
  intro it hit
  have hsplit := nodup_split items hnd
  unfold isExprName
  rw [hcfg]
  cases hl : isLit it with
  | true =>
    apply List.contains_iff_mem.mpr
    exact List.mem_map.mpr ⟨it, List.mem_filter.mpr ⟨hit, hl⟩, rfl⟩
  | false =>
    apply contains_false_of_not_mem'
    intro hm
    have h2 : outName it ∈ (items.filter notLit).map outName :=
      List.mem_map.mpr ⟨it, List.mem_filter.mpr ⟨hit, by simp [notLit, hl]⟩, rfl⟩
    exact (List.nodup_append.mp hsplit).2.2 _ hm _ h2 rfl
where
  contains_false_of_not_mem' {l : List Str} {a : Str} (h : a ∉ l) : l.contains a = false := by
    cases hb : l.contains a with
    | false => rfl
    | true => exact absurd (List.contains_iff_mem.mp hb) h

theorem lit_col (env : Env) (row : Row) (it : Item) (hl : isLit it = true) :
    (outName it, evalFieldExpr env row (litExpr it)) = colOf row it := by
  unfold isLit at hl
  unfold litExpr colOf
  cases hs : it.src <;> rw [hs] at hl <;> simp at hl
  simp [evalFieldExpr, itemValue]

/-- **projection of a well-formed, non-`*` SELECT list** -/
theorem projectDirectRow_items (env : Env) (items : List Item) (row : Row)
    (hne : items ≠ []) (hstar : isStarOnly items = false)
    (hwf : ∀ it ∈ items, itemWF it = true) (hnd : (items.map outName).Nodup) :
    projectDirectRow (toConfig items) env row =
      .ok ((items.filter isLit).map (colOf row) ++ (items.filter notLit).map (colOf row)) := by
  have hsplit := nodup_split items hnd
  have hE : exprMap items [] = (items.filter isLit).map fun it => (outName it, litExpr it) := by
    have := exprMap_eq items [] (by simpa using (List.nodup_append.mp hsplit).1)
    simpa using this
  have hcfg : toConfig items = { simpleFields := items.map simpleSpec, fieldExprs := exprMap items [] } := by
    simp [toConfig, hstar]
  rw [hcfg]
  have hsf : items.map simpleSpec ≠ [] := by simpa using hne
  unfold projectDirectRow
  simp only [hsf, ne_eq, not_false_eq_true, if_true, List.map_map]
  have hkeys : (exprMap items []).map Prod.fst = (items.filter isLit).map outName := by
    rw [hE]; simp [Function.comp_def]
  have hPE : projectExprs env row (exprMap items []) [] = (items.filter isLit).map (colOf row) := by
    rw [projectExprs_eq env row _ [] (by simpa [keysOf, hkeys] using (List.nodup_append.mp hsplit).1), hE]
    simp only [List.nil_append, List.map_map]
    apply List.map_congr_left
    intro it hit
    exact lit_col env row it (List.mem_filter.mp hit).2
  rw [hPE]
  have hmain := projectSimple_items { simpleFields := items.map simpleSpec, fieldExprs := exprMap items [] } env row
    items ((items.filter isLit).map (colOf row)) hwf
    (isExprName_items items hnd _ hkeys)
    (by
      have : keysOf ((items.filter isLit).map (colOf row)) = (items.filter isLit).map outName := by
        simp [keysOf, colOf, Function.comp_def]
      rw [this]; exact hsplit)
  simpa [Function.comp_def] using hmain

theorem columns_perm (items : List Item) (row : Row) :
    ((items.filter isLit).map (colOf row) ++ (items.filter notLit).map (colOf row)).Perm (items.map (colOf row)) := by
  have := (List.filter_append_perm isLit items).map (colOf row)
  unfold notLit
  simpa using this

/-- `SELECT *` -/
theorem projectDirectRow_star (env : Env) (items : List Item) (row : Row)
    (hstar : isStarOnly items = true) (hrow : (keysOf row).Nodup) :
    projectDirectRow (toConfig items) env row = .ok row := by
  have hcfg : toConfig items = { simpleFields := [['*']], fieldExprs := [] } := by simp [toConfig, hstar]
  rw [hcfg]
  have hsel : (compileField ['*']).selectAll = true := by simp [compileField]
  unfold projectDirectRow
  simp only [ne_eq, List.cons_ne_self, not_false_eq_true, if_true, List.map_cons, List.map_nil,
    projectSimple, projectExprs]
  unfold processSimple
  rw [hsel]
  simp only [if_true]
  rw [copyAll_eq _ rfl row [] (by simpa [keysOf] using hrow)]
  simp

end Pipe

namespace Pipe
open PipeSpec

/-! ### compileOutputNames accepts a list with distinct names -/

theorem checkSimple_items (cfg : Config) (items : List Item) (seen : List Str)
    (hwf : ∀ it ∈ items, itemWF it = true)
    (hexpr : ∀ it ∈ items, isExprName cfg (outName it) = isLit it)
    (hnd : (seen ++ (items.filter notLit).map outName).Nodup) :
    ∃ seen', checkSimple cfg (items.map fun it => compileField (simpleSpec it)) seen = .ok seen' ∧
      ∀ n, n ∈ seen' ↔ n ∈ seen ∨ n ∈ (items.filter notLit).map outName := by
  induction items generalizing seen with
  | nil => exact ⟨seen, rfl, by simp⟩
  | cons it rest ih =>
    have hw := hwf it (by simp)
    have hx := hexpr it (by simp)
    obtain ⟨hname, hsel⟩ := compileField_outputName it hw
    have hwf' : ∀ it' ∈ rest, itemWF it' = true := fun it' h => hwf it' (by simp [h])
    have hexpr' : ∀ it' ∈ rest, isExprName cfg (outName it') = isLit it' := fun it' h => hexpr it' (by simp [h])
    simp only [List.map_cons, checkSimple, hsel, hname, hx, Bool.false_or]
    cases hl : isLit it with
    | true =>
      simp only [if_true]
      simp only [List.filter_cons, notLit, hl, Bool.not_true, Bool.false_eq_true, if_false] at hnd ⊢
      exact ih seen hwf' hexpr' hnd
    | false =>
      simp only [Bool.false_eq_true, if_false]
      simp only [List.filter_cons, notLit, hl, Bool.not_false, if_true, List.map_cons] at hnd ⊢
      have hnot : outName it ∉ seen := by
        intro hm
        exact (List.nodup_append.mp hnd).2.2 _ hm (outName it) (by simp) rfl
      have hc : seen.contains (outName it) = false := by
        cases hb : seen.contains (outName it) with
        | false => rfl
        | true => exact absurd (List.contains_iff_mem.mp hb) hnot
      rw [hc]
      simp only [Bool.false_eq_true, if_false]
      have hnd' : ((outName it :: seen) ++ (rest.filter notLit).map outName).Nodup := by
        have hp : ((outName it :: seen) ++ (rest.filter notLit).map outName).Perm
            (seen ++ outName it :: (rest.filter notLit).map outName) := by
          simpa using (List.perm_middle (a := outName it) (l₁ := seen) (l₂ := (rest.filter notLit).map outName)).symm
        exact (List.Perm.nodup_iff hp).mpr hnd
      obtain ⟨seen', h1, h2⟩ := ih (outName it :: seen) hwf' hexpr' hnd'
      refine ⟨seen', h1, ?_⟩
      intro n
      rw [h2 n]
      simp only [List.mem_cons]
      constructor
      · rintro ((h | h) | h)
        · exact Or.inr (Or.inl h)
        · exact Or.inl h
        · exact Or.inr (Or.inr h)
      · rintro (h | h | h)
        · exact Or.inl (Or.inr h)
        · exact Or.inl (Or.inl h)
        · exact Or.inr h

theorem checkExprs_ok (names seen : List Str) (hn : names.Nodup) (hd : ∀ n ∈ names, n ∉ seen) :
    checkExprs names seen = .ok () := by
  induction names generalizing seen with
  | nil => rfl
  | cons n rest ih =>
    have hnot : n ∉ seen := hd n (by simp)
    have hc : seen.contains n = false := by
      cases hb : seen.contains n with
      | false => rfl
      | true => exact absurd (List.contains_iff_mem.mp hb) hnot
    simp only [checkExprs, hc, Bool.false_eq_true, if_false]
    rw [List.nodup_cons] at hn
    apply ih _ hn.2
    intro m hm
    simp only [List.mem_cons, not_or]
    exact ⟨fun e => hn.1 (e ▸ hm), hd m (by simp [hm])⟩

theorem checkOutputNames_items (items : List Item) (hstar : isStarOnly items = false)
    (hwf : ∀ it ∈ items, itemWF it = true) (hnd : (items.map outName).Nodup) :
    checkOutputNames (toConfig items) = .ok () := by
  have hsplit := nodup_split items hnd
  have hE : exprMap items [] = (items.filter isLit).map fun it => (outName it, litExpr it) := by
    have := exprMap_eq items [] (by simpa using (List.nodup_append.mp hsplit).1)
    simpa using this
  have hkeys : (exprMap items []).map Prod.fst = (items.filter isLit).map outName := by
    rw [hE]; simp [Function.comp_def]
  have hcfg : toConfig items = { simpleFields := items.map simpleSpec, fieldExprs := exprMap items [] } := by
    simp [toConfig, hstar]
  rw [hcfg]
  unfold checkOutputNames
  simp only [List.map_map]
  obtain ⟨seen', h1, h2⟩ := checkSimple_items { simpleFields := items.map simpleSpec, fieldExprs := exprMap items [] }
    items [] hwf (isExprName_items items hnd _ hkeys) (by simpa using (List.nodup_append.mp hsplit).2.1)
  have h1' : checkSimple { simpleFields := items.map simpleSpec, fieldExprs := exprMap items [] }
      (items.map (compileField ∘ simpleSpec)) [] = .ok seen' := by simpa [Function.comp_def] using h1
  rw [h1', hkeys]
  simp only []
  -- `seen'` has the ordinary names; the literal names are distinct from them and from each other
  apply checkExprs_ok _ _ (List.nodup_append.mp hsplit).1
  intro n hn hm
  rcases (h2 n).mp hm with h | h
  · simp at h
  · exact (List.nodup_append.mp hsplit).2.2 n hn n h rfl

end Pipe
