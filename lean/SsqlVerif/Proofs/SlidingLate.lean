/-
Helper lemmas for C02/C08: the ALLOWEDLATENESS extension of the sliding model.
* with ALLOWEDLATENESS = 0 the extension coincides with the base model step by step (so the C08
  theorems about `Sliding.run` are theorems about the model the driver executes);
* a late update re-delivers, for every open triggered window containing the row and only for
  those, the window's snapshot followed by buffered rows of the interval not yet in it, the late
  row last.
Core Lean only.
-/
import SsqlVerif.Model.SlidingLate
set_option autoImplicit false
set_option linter.unusedVariables false
set_option linter.unusedSimpArgs false

namespace SlidingLate
open Wm Tumbling Sliding

/-- ALLOWEDLATENESS = 0 and nothing registered -/
structure L0 (s : SWL) : Prop where
  hl : s.lateness = 0
  hf : s.fired = []

theorem lateTargets_l0 (s : SWL) (r : Row) (now : Int) (h : L0 s) : lateTargets s r now = [] := by
  unfold lateTargets
  have : ¬ (0 < s.lateness) := by rw [h.hl]; decide
  simp [this]

theorem stepAdd_l0 (s : SWL) (r : Row) (now : Int) (hint : Option Int) (h : L0 s) :
    (stepAdd s r now hint).1.base = Sliding.stepAdd s.base r now ∧ (stepAdd s r now hint).2 = [] ∧
    L0 (stepAdd s r now hint).1 := by
  have ht := lateTargets_l0 s r now h
  refine ⟨?_, ?_, ⟨h.hl, ?_⟩⟩
  · simp [stepAdd, addBase, ht]
  · simp [stepAdd, ht]
  · simp [stepAdd, updFired, h.hf]

theorem stepIter_lateness (s : SWL) : (stepIter s).1.lateness = s.lateness := by
  unfold stepIter
  split
  · split <;> rfl
  · rfl

theorem stepIter_l0 (s : SWL) (h : L0 s) :
    (stepIter s).1.base = (Sliding.stepIter s.base).1 ∧ (stepIter s).2 = (Sliding.stepIter s.base).2 ∧
    L0 (stepIter s).1 := by
  have hn : ¬ (0 < s.lateness) := by rw [h.hl]; decide
  have hl' : (stepIter s).1.lateness = 0 := by rw [stepIter_lateness]; exact h.hl
  cases htr : s.base.trigW with
  | none =>
    refine ⟨?_, ?_, ⟨hl', ?_⟩⟩ <;> simp [stepIter, Sliding.stepIter, htr, h.hf]
  | some w =>
    cases hcur : s.base.cur with
    | none =>
      refine ⟨?_, ?_, ⟨hl', ?_⟩⟩ <;> simp [stepIter, Sliding.stepIter, htr, hcur, h.hf]
    | some c =>
      by_cases hw : c + s.base.size ≤ w
      · refine ⟨?_, ?_, ⟨hl', ?_⟩⟩
        · simp [stepIter, Sliding.stepIter, htr, hcur, hw]
        · simp [stepIter, Sliding.stepIter, htr, hcur, hw]
        · simp [stepIter, htr, hcur, hw, register, hn, h.hf]
      · refine ⟨?_, ?_, ⟨hl', ?_⟩⟩
        · simp [stepIter, Sliding.stepIter, htr, hcur, hw]
        · simp [stepIter, Sliding.stepIter, htr, hcur, hw]
        · simp [stepIter, htr, hcur, hw, h.hf]

/-- op language of the extension (same ops as the base model) -/
def step (s : SWL) : Sliding.Op → SWL × List Emission
  | .add r now => stepAdd s r now none
  | .addNoTs => (s, [])
  | .tick idle now => (tick s idle now, [])
  | .pop => (stepPop s, [])
  | .iter => stepIter s

def run (s : SWL) : List Sliding.Op → SWL × List Emission
  | [] => (s, [])
  | op :: ops => ((run (step s op).1 ops).1, (step s op).2 ++ (run (step s op).1 ops).2)

theorem step_l0 (s : SWL) (op : Sliding.Op) (h : L0 s) :
    (step s op).1.base = (Sliding.step s.base op).1 ∧ (step s op).2 = (Sliding.step s.base op).2 ∧ L0 (step s op).1 := by
  cases op with
  | add r now =>
    obtain ⟨h1, h2, h3⟩ := stepAdd_l0 s r now none h
    exact ⟨h1, by simp [step, Sliding.step, h2], h3⟩
  | addNoTs => exact ⟨rfl, rfl, h⟩
  | tick idle now => exact ⟨rfl, rfl, ⟨h.hl, h.hf⟩⟩
  | pop => exact ⟨rfl, rfl, ⟨h.hl, h.hf⟩⟩
  | iter => exact stepIter_l0 s h

/-- **coincidence**: with ALLOWEDLATENESS = 0 the extended model is the base model -/
theorem run_l0 (s : SWL) (ops : List Sliding.Op) (h : L0 s) :
    (run s ops).1.base = (Sliding.run s.base ops).1 ∧ (run s ops).2 = (Sliding.run s.base ops).2 := by
  induction ops generalizing s with
  | nil => exact ⟨rfl, rfl⟩
  | cons op ops ih =>
    obtain ⟨h1, h2, h3⟩ := step_l0 s op h
    obtain ⟨i1, i2⟩ := ih (step s op).1 h3
    simp only [run, Sliding.run]
    rw [h1] at i1 i2
    exact ⟨i1, by rw [h2, i2]⟩

/-! ### late updates -/

theorem mem_candidates (s : SWL) (r : Row) (cur : Option Int) (f : Fired) (h : f ∈ candidates s r cur) :
    f ∈ s.fired ∧ inSlot s.base.size f.start r = true ∧ stillOpen cur f = true := by
  simp only [candidates, List.mem_filter, Bool.and_eq_true] at h
  exact ⟨h.1, h.2.1, h.2.2⟩

/-- every emission of an Add is a late re-delivery of an open triggered window that contains the
row: same interval, the window's snapshot first, then rows of the interval, the late row among them -/
theorem late_emissions (s : SWL) (r : Row) (now : Int) (hint : Option Int) :
    ∀ e ∈ (stepAdd s r now hint).2, ∃ f ∈ s.fired,
      e.kind = .late ∧ e.start = f.start ∧ e.stop = f.start + s.base.size ∧
      inSlot s.base.size f.start r = true ∧ stillOpen (Sliding.wmAfter s.base r now).cur f = true ∧
      Sliding.lateNow s.base r now = true ∧ 0 < s.lateness ∧
      (∃ extra, e.rows = f.snap ++ extra ∧ (∀ x ∈ extra, inSlot s.base.size f.start x = true ∧ x ∉ f.snap) ∧
        (r ∈ f.snap ∨ r ∈ extra)) := by
  intro e he
  simp only [stepAdd, List.mem_map] at he
  obtain ⟨f, hf, rfl⟩ := he
  unfold lateTargets at hf
  split at hf
  · rename_i hc
    simp only [Bool.and_eq_true, decide_eq_true_eq] at hc
    obtain ⟨hm, hin, hop⟩ := mem_candidates s r _ f hf
    refine ⟨f, hm, rfl, rfl, rfl, hin, hop, hc.1, hc.2, _, rfl, ?_, ?_⟩
    · intro x hx
      simp only [List.mem_filter, Bool.and_eq_true, Bool.not_eq_true'] at hx
      refine ⟨hx.2.1, ?_⟩
      intro hmem
      have hc2 : f.snap.contains x = true := List.contains_iff_mem.mpr hmem
      rw [hc2] at hx
      exact absurd hx.2.2 (by simp)
    · by_cases hs : r ∈ f.snap
      · exact Or.inl hs
      · right
        apply List.mem_filter.mpr
        refine ⟨by simp, ?_⟩
        have hc2 : f.snap.contains r = false := by
          cases hcc : f.snap.contains r with
          | false => rfl
          | true => exact absurd (List.contains_iff_mem.mp hcc) hs
        simp [hin, hc2]; exact hs
  · cases hf

/-- … and every open triggered window that contains a late row is re-delivered -/
theorem every_open_window_redelivered (s : SWL) (r : Row) (now : Int) (hint : Option Int)
    (hl : Sliding.lateNow s.base r now = true) (hlat : 0 < s.lateness)
    (f : Fired) (hf : f ∈ s.fired) (hin : inSlot s.base.size f.start r = true)
    (hop : stillOpen (Sliding.wmAfter s.base r now).cur f = true) :
    ∃ e ∈ (stepAdd s r now hint).2, e.start = f.start ∧ e.kind = .late := by
  refine ⟨{ kind := .late, start := f.start, stop := f.start + s.base.size, rows := lateRows s f r }, ?_, rfl, rfl⟩
  simp only [stepAdd, List.mem_map]
  refine ⟨f, ?_, rfl⟩
  unfold lateTargets
  simp only [hl, hlat, decide_true, Bool.and_self, if_true, candidates, List.mem_filter, Bool.and_eq_true]
  exact ⟨hf, hin, hop⟩

end SlidingLate
