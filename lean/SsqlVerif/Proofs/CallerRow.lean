/-
Lemmas for C20: ownership of the working map, append-only heap of result rows, memo-table transparency.
-/
import SsqlVerif.Model.CallerRow
set_option autoImplicit false

namespace Caller
open Pipe

/-! ### (1) writes after a copy never reach the caller -/

theorem write_own (w : Work) (k : Str) (v : Value) (h : w.own.isSome = true) :
    (w.write k v).caller = w.caller ∧ (w.write k v).own.isSome = true := by
  unfold Work.write
  cases ho : w.own with
  | none => rw [ho] at h; simp at h
  | some m => simp

theorem writeAll_own (w : Work) (kvs : List (Str × Value)) (h : w.own.isSome = true) :
    (w.writeAll kvs).caller = w.caller ∧ (w.writeAll kvs).own.isSome = true := by
  induction kvs generalizing w with
  | nil => exact ⟨rfl, h⟩
  | cons kv rest ih =>
    obtain ⟨k, v⟩ := kv
    obtain ⟨h1, h2⟩ := write_own w k v h
    obtain ⟨h3, h4⟩ := ih (w.write k v) h2
    exact ⟨by simp only [Work.writeAll]; rw [h3, h1], by simp only [Work.writeAll]; exact h4⟩

theorem detach_own (w : Work) : w.detach.caller = w.caller ∧ w.detach.own.isSome = true := by
  unfold Work.detach
  cases ho : w.own with
  | none => simp
  | some m => simp [ho]

theorem detach_read (w : Work) : w.detach.read = w.read := by
  unfold Work.detach Work.read
  cases ho : w.own with
  | none => simp
  | some m => simp [ho]

theorem evalAnalytic_caller (q : QCfg) (e : QEnv) (w : Work) : (evalAnalytic q e w).1.caller = w.caller := by
  unfold evalAnalytic
  split
  · rfl
  · obtain ⟨h1, h2⟩ := detach_own w
    obtain ⟨h3, h4⟩ := writeAll_own w.detach (selectInjections e (e.analyticEval w.read) q.analytic) h2
    obtain ⟨h5, _⟩ := writeAll_own _ (whereInjections (e.analyticEval w.read) q.wherePlaceholders) h4
    simp only []
    rw [h5, h3, h1]

theorem applyWhereAndAnalytic_caller (q : QCfg) (e : QEnv) (w : Work) :
    (applyWhereAndAnalytic q e w).1.caller = w.caller := by
  unfold applyWhereAndAnalytic
  split
  · split <;> exact evalAnalytic_caller q e w
  · split
    · exact evalAnalytic_caller q e w
    · rfl

theorem enrich_caller (q : QCfg) (e : QEnv) (w w' : Work) (h : enrich q e w = some w') : w'.caller = w.caller := by
  unfold enrich at h
  split at h
  · cases h; rfl
  · split at h
    · cases h
    · rename_i extra _
      cases h
      exact (writeAll_own { w with own := some w.read } extra rfl).1

theorem injectGroupKeys_caller (q : QCfg) (e : QEnv) (w : Work) : (injectGroupKeys q e w).caller = w.caller := by
  unfold injectGroupKeys
  split
  · rfl
  · obtain ⟨h1, h2⟩ := detach_own w
    rw [(writeAll_own w.detach _ h2).1, h1]

theorem directStep_caller (q : QCfg) (e : QEnv) (row : Row) : (directStep q e row).1 = row := by
  unfold directStep
  cases he : enrich q e { caller := row, own := none } with
  | none => rfl
  | some w =>
    have hw := enrich_caller q e _ w he
    simp only []
    split <;> simp only [applyWhereAndAnalytic_caller, hw]

theorem windowStep_caller (q : QCfg) (e : QEnv) (row : Row) : (windowStep q e row).1 = row := by
  unfold windowStep
  cases he : enrich q e { caller := row, own := none } with
  | none => rfl
  | some w =>
    have hw := enrich_caller q e _ w he
    simp only []
    split
    · simp only [injectGroupKeys_caller, hw]
    · exact hw

/-! ### (2) heap of result rows -/

theorem heapSet_length (h : Heap) (id : Nat) (r : Row) : (heapSet h id r).length = h.length := by
  simp [heapSet]

theorem applyWrites_length (base : Nat) (h : Heap) (ws : List (Nat × Str × Value)) :
    (applyWrites base h ws).length = h.length := by
  induction ws generalizing h with
  | nil => rfl
  | cons w rest ih =>
    obtain ⟨off, k, v⟩ := w
    simp only [applyWrites]
    rw [ih]
    split <;> simp [heapSet_length]

theorem applyWrites_below (base : Nat) (h : Heap) (ws : List (Nat × Str × Value)) (id : Nat) (hid : id < base) :
    (applyWrites base h ws)[id]? = h[id]? := by
  induction ws generalizing h with
  | nil => rfl
  | cons w rest ih =>
    obtain ⟨off, k, v⟩ := w
    simp only [applyWrites]
    rw [ih]
    split
    · have : base + off ≠ id := by omega
      simp [heapSet, this]
    · rfl

/-- every delivered object still has the content it was delivered with -/
def RInv (s : RState) : Prop := ∀ p ∈ s.delivered, s.heap[p.1]? = some p.2

theorem rinv_step (s : RState) (st : RStep) (h : RInv s) : RInv (rstep s st) := by
  intro p hp
  simp only [rstep, List.mem_append, List.mem_map, List.mem_range] at hp
  rcases hp with hp | ⟨i, hi, rfl⟩
  · have hold := h p hp
    have hlt : p.1 < s.heap.length := by
      cases hget : s.heap[p.1]? with
      | none => rw [hget] at hold; cases hold
      | some r => exact (List.getElem?_eq_some_iff.mp hget).1
    simp only [rstep]
    rw [applyWrites_below _ _ _ _ hlt, List.getElem?_append_left hlt]
    exact hold
  · simp only [rstep]
    have hlen : s.heap.length + i < (applyWrites s.heap.length (s.heap ++ st.fresh) st.writes).length := by
      rw [applyWrites_length]; simp; omega
    rw [List.getElem?_eq_getElem hlen]
    simp

theorem rinv_run (s : RState) (steps : List RStep) (h : RInv s) : RInv (rrun s steps) := by
  induction steps generalizing s with
  | nil => exact h
  | cons st rest ih => exact ih _ (rinv_step s st h)

theorem delivered_mono (s : RState) (steps : List RStep) :
    ∃ extra, (rrun s steps).delivered = s.delivered ++ extra := by
  induction steps generalizing s with
  | nil => exact ⟨[], by simp [rrun]⟩
  | cons st rest ih =>
    obtain ⟨extra, he⟩ := ih (rstep s st)
    refine ⟨((List.range st.fresh.length).map fun i =>
        (s.heap.length + i, ((applyWrites s.heap.length (s.heap ++ st.fresh) st.writes)[s.heap.length + i]?).getD [])) ++ extra, ?_⟩
    simp only [rrun]; rw [he]; simp only [rstep, List.append_assoc]

/-! ### (3) memo tables -/

theorem assocGet_assocSet {β : Type} (k k' : Str) (v : β) (l : List (Str × β)) :
    assocGet k (assocSet k' v l) = if k' = k then some v else assocGet k l := by
  induction l with
  | nil => simp [assocSet, assocGet]
  | cons kv rest ih =>
    obtain ⟨k'', v''⟩ := kv
    simp only [assocSet]
    by_cases h1 : k'' = k'
    · subst h1
      by_cases h2 : k'' = k
      · simp [assocGet, h2]
      · simp [assocGet, h2]
    · simp only [if_neg h1, assocGet, ih]
      by_cases h2 : k'' = k
      · subst h2
        have : ¬ k' = k'' := fun e => h1 e.symm
        simp [this]
      · simp [h2]

section
variable {Ty Prog : Type} [DecidableEq Ty]

/-- every cache entry is what the pure function would return -/
structure Consistent (b : Bridge Ty Prog) (g : Shared Ty Prog) : Prop where
  prep : ∀ text r, assocGet text g.prep = some r → r = b.prep text
  prog : ∀ text ty p, assocGet text g.prog = some (ty, p) → b.compile text ty = some p

omit [DecidableEq Ty] in
theorem consistent_empty (b : Bridge Ty Prog) : Consistent b {} :=
  ⟨by intro t r h; simp [assocGet] at h, by intro t ty p h; simp [assocGet] at h⟩

omit [DecidableEq Ty] in
theorem prepCached_spec (b : Bridge Ty Prog) (g : Shared Ty Prog) (hg : Consistent b g) (text : Str) :
    (prepCached b.prep g text).2 = b.prep text ∧ Consistent b (prepCached b.prep g text).1 := by
  unfold prepCached
  cases hget : assocGet text g.prep with
  | some r => exact ⟨hg.prep text r hget, hg⟩
  | none =>
    refine ⟨rfl, ⟨?_, hg.prog⟩⟩
    intro t r h
    simp only [assocGet_assocSet] at h
    split at h
    · rename_i e; cases h; rw [e]
    · exact hg.prep t r h

theorem compileCached_spec (b : Bridge Ty Prog) (g : Shared Ty Prog) (hg : Consistent b g) (text : Str) (ty : Ty) :
    (compileCached b.compile g text ty).2 = b.compile text ty ∧ Consistent b (compileCached b.compile g text ty).1 := by
  have hstore : ∀ p', b.compile text ty = some p' →
      Consistent b { g with prog := assocSet text (ty, p') g.prog } := by
    intro p' hp'
    refine ⟨hg.prep, ?_⟩
    intro t ty2 p h
    simp only [assocGet_assocSet] at h
    split at h
    · rename_i e
      cases h
      rw [← e]; exact hp'
    · exact hg.prog t ty2 p h
  unfold compileCached
  cases hget : assocGet text g.prog with
  | some tp =>
    obtain ⟨ty', p⟩ := tp
    simp only []
    by_cases hty : ty' = ty
    · subst hty
      simp only [if_true]
      exact ⟨(hg.prog text ty' p hget).symm, hg⟩
    · simp only [if_neg hty]
      cases hc : b.compile text ty with
      | some p' => exact ⟨rfl, hstore p' hc⟩
      | none => exact ⟨rfl, hg⟩
  | none =>
    simp only []
    cases hc : b.compile text ty with
    | some p' => exact ⟨rfl, hstore p' hc⟩
    | none => exact ⟨rfl, hg⟩

theorem evalCached_spec (b : Bridge Ty Prog) (g : Shared Ty Prog) (hg : Consistent b g) (text : Str) (row : Row) :
    (evalCached b g text row).2 = evalPure b text row ∧ Consistent b (evalCached b g text row).1 := by
  obtain ⟨h1, h2⟩ := prepCached_spec b g hg text
  obtain ⟨h3, h4⟩ := compileCached_spec b (prepCached b.prep g text).1 h2 (prepCached b.prep g text).2 (b.typeOf row)
  unfold evalCached evalPure
  rw [h1] at h3 ⊢
  rw [h3]
  cases b.compile (b.prep text) (b.typeOf row) with
  | some p => exact ⟨rfl, by rw [h1] at h4; exact h4⟩
  | none => exact ⟨rfl, by rw [h1] at h4; exact h4⟩

theorem evalAllCached_spec (b : Bridge Ty Prog) (g : Shared Ty Prog) (hg : Consistent b g) (ts : List Str) (row : Row) :
    (evalAllCached b g ts row).2 = ts.map (fun t => evalPure b t row) ∧ Consistent b (evalAllCached b g ts row).1 := by
  induction ts generalizing g with
  | nil => exact ⟨rfl, hg⟩
  | cons t rest ih =>
    obtain ⟨h1, h2⟩ := evalCached_spec b g hg t row
    obtain ⟨h3, h4⟩ := ih (evalCached b g t row).1 h2
    exact ⟨by simp only [evalAllCached, List.map_cons]; rw [h1, h3], by simp only [evalAllCached]; exact h4⟩

theorem instStep_spec {σ : Type} (b : Bridge Ty Prog) (i : Inst σ) (g : Shared Ty Prog) (hg : Consistent b g)
    (s : σ) (row : Row) :
    (instStep b i g s row).2 = instStepPure b i s row ∧ Consistent b (instStep b i g s row).1 := by
  obtain ⟨h1, h2⟩ := evalAllCached_spec b g hg i.exprs row
  exact ⟨by simp only [instStep, instStepPure]; rw [h1], h2⟩

theorem runBoth_spec {σ τ : Type} (b : Bridge Ty Prog) (ia : Inst σ) (ib : Inst τ)
    (sched : List (Bool × Row)) :
    ∀ (g : Shared Ty Prog), Consistent b g → ∀ (sa : σ) (sb : τ),
      (runBoth b ia ib g sa sb sched).1 = runAlone b ia sa (rowsOf true sched) ∧
      (runBoth b ia ib g sa sb sched).2 = runAlone b ib sb (rowsOf false sched) := by
  induction sched with
  | nil => intro g _ sa sb; exact ⟨rfl, rfl⟩
  | cons wr rest ih =>
    intro g hg sa sb
    obtain ⟨who, r⟩ := wr
    cases who with
    | true =>
      obtain ⟨h1, h2⟩ := instStep_spec b ia g hg sa r
      obtain ⟨h3, h4⟩ := ih (instStep b ia g sa r).1 h2 (instStep b ia g sa r).2.1 sb
      have e1 : (instStep b ia g sa r).2.1 = (instStepPure b ia sa r).1 := by rw [h1]
      have e2 : (instStep b ia g sa r).2.2 = (instStepPure b ia sa r).2 := by rw [h1]
      simp only [runBoth, rowsOf, if_true, runAlone]
      refine ⟨?_, ?_⟩
      · rw [h3, e1, e2]
      · rw [h4]; simp
    | false =>
      obtain ⟨h1, h2⟩ := instStep_spec b ib g hg sb r
      obtain ⟨h3, h4⟩ := ih (instStep b ib g sb r).1 h2 sa (instStep b ib g sb r).2.1
      have e1 : (instStep b ib g sb r).2.1 = (instStepPure b ib sb r).1 := by rw [h1]
      have e2 : (instStep b ib g sb r).2.2 = (instStepPure b ib sb r).2 := by rw [h1]
      simp only [runBoth, rowsOf, if_true, runAlone]
      refine ⟨?_, ?_⟩
      · rw [h3]; simp
      · rw [h4, e1, e2]

end

end Caller

namespace Caller
open Pipe

/-! ### the repair does not change what later stages read -/

def applyAll (m : Row) : List (Str × Value) → Row
  | [] => m
  | (k, v) :: rest => applyAll (setKey k v m) rest

theorem write_read (w : Work) (k : Str) (v : Value) : (w.write k v).read = setKey k v w.read := by
  unfold Work.write Work.read
  cases ho : w.own with
  | none => simp
  | some m => simp

theorem writeAll_read (w : Work) (kvs : List (Str × Value)) : (w.writeAll kvs).read = applyAll w.read kvs := by
  induction kvs generalizing w with
  | nil => rfl
  | cons kv rest ih =>
    obtain ⟨k, v⟩ := kv
    simp only [Work.writeAll, applyAll]
    rw [ih, write_read]

theorem evalAnalytic_read (q : QCfg) (e : QEnv) (w : Work) :
    (evalAnalytic q e w).1.read = (evalAnalyticInPlace q e w).1.read ∧
    (evalAnalytic q e w).2 = (evalAnalyticInPlace q e w).2 := by
  unfold evalAnalytic evalAnalyticInPlace
  split
  · exact ⟨rfl, rfl⟩
  · simp only [writeAll_read, detach_read, and_self]

theorem injectGroupKeys_read (q : QCfg) (e : QEnv) (w : Work) :
    (injectGroupKeys q e w).read = (injectGroupKeysInPlace q e w).read := by
  unfold injectGroupKeys injectGroupKeysInPlace
  split
  · rename_i h
    have : groupInjections e w.read q.groupFields = [] := List.isEmpty_iff.mp h
    rw [this]; rfl
  · simp only [writeAll_read, detach_read]

end Caller
