/-
Grouping by an encoded key = partition by the key tuple, provided the encoder is injective on
the tuples of the batch (helper lemmas for C04).
-/
import SsqlVerif.Model.GroupPartition
import SsqlVerif.Spec.GroupBy
set_option autoImplicit false
set_option linter.unusedSectionVars false

namespace GroupPart
section
variable {κ σ ι : Type} [DecidableEq σ] [DecidableEq κ] [DecidableEq ι] (enc : κ → σ)

/-- member ids of the rows whose *encoded* key is `s` -/
def membersEnc (p : List (κ × ι)) (s : σ) : List ι :=
  (p.filter fun r => decide (enc r.1 = s)).map Prod.snd

theorem membersEnc_append (p q : List (κ × ι)) (s : σ) :
    membersEnc enc (p ++ q) s = membersEnc enc p s ++ membersEnc enc q s := by
  simp [membersEnc]

/-- invariant of `groups` after the rows `p` -/
structure Inv (p : List (κ × ι)) (g : List (Entry κ σ ι)) : Prop where
  keyOf : ∀ e ∈ g, e.1 = enc e.2.1
  occurs : ∀ e ∈ g, ∃ r ∈ p, r.1 = e.2.1
  mem : ∀ e ∈ g, e.2.2 = membersEnc enc p e.1
  distinct : g.Pairwise fun e e' => e.1 ≠ e'.1
  covers : ∀ r ∈ p, ∃ e ∈ g, e.1 = enc r.1

/-- every entry after `insertRow` is an untouched old entry of another key, the old entry of the
row's key extended by the row, or a fresh entry if the key was new -/
theorem insertRow_cases (g : List (Entry κ σ ι)) (r : κ × ι)
    (hd : g.Pairwise fun e e' => e.1 ≠ e'.1) :
    ∀ e' ∈ insertRow enc g r,
      (e' ∈ g ∧ e'.1 ≠ enc r.1) ∨
      (∃ e ∈ g, e.1 = enc r.1 ∧ e' = (e.1, e.2.1, e.2.2 ++ [r.2])) ∨
      ((∀ e ∈ g, e.1 ≠ enc r.1) ∧ e' = (enc r.1, r.1, [r.2])) := by
  induction g with
  | nil =>
    intro e' he'
    simp only [insertRow, List.mem_singleton] at he'
    exact Or.inr (Or.inr ⟨fun _ h => by simp at h, he'⟩)
  | cons e rest ih =>
    intro e' he'
    have hd' := List.pairwise_cons.1 hd
    unfold insertRow at he'
    by_cases hk : e.1 = enc r.1
    · rw [if_pos hk] at he'
      rcases List.mem_cons.1 he' with h | h
      · exact Or.inr (Or.inl ⟨e, by simp, hk, h⟩)
      · exact Or.inl ⟨by simp [h], fun hk' => hd'.1 e' h (hk.trans hk'.symm)⟩
    · rw [if_neg hk] at he'
      rcases List.mem_cons.1 he' with h | h
      · exact Or.inl ⟨by simp [h], by rw [h]; exact hk⟩
      · rcases ih hd'.2 e' h with ⟨h1, h2⟩ | ⟨e0, h1, h2, h3⟩ | ⟨h1, h2⟩
        · exact Or.inl ⟨by simp [h1], h2⟩
        · exact Or.inr (Or.inl ⟨e0, by simp [h1], h2, h3⟩)
        · exact Or.inr (Or.inr ⟨fun e1 he1 => by
            rcases List.mem_cons.1 he1 with h3 | h3
            · rw [h3]; exact hk
            · exact h1 e1 h3, h2⟩)

/-- the encoded keys present after `insertRow`: the old ones and the row's key -/
theorem insertRow_keys (g : List (Entry κ σ ι)) (r : κ × ι) (s : σ) :
    (∃ e ∈ insertRow enc g r, e.1 = s) ↔ (∃ e ∈ g, e.1 = s) ∨ s = enc r.1 := by
  induction g with
  | nil => simp [insertRow, eq_comm]
  | cons e rest ih =>
    unfold insertRow
    by_cases hk : e.1 = enc r.1
    · rw [if_pos hk]
      constructor
      · rintro ⟨e1, he1, h⟩
        rcases List.mem_cons.1 he1 with h1 | h1
        · left; exact ⟨e, by simp, by rw [← h, h1]⟩
        · left; exact ⟨e1, by simp [h1], h⟩
      · rintro (⟨e1, he1, h⟩ | h)
        · rcases List.mem_cons.1 he1 with h1 | h1
          · exact ⟨(e.1, e.2.1, e.2.2 ++ [r.2]), List.mem_cons_self, by rw [← h, h1]⟩
          · exact ⟨e1, by simp [h1], h⟩
        · exact ⟨(e.1, e.2.1, e.2.2 ++ [r.2]), List.mem_cons_self, by rw [h, hk]⟩
    · rw [if_neg hk]
      constructor
      · rintro ⟨e1, he1, h⟩
        rcases List.mem_cons.1 he1 with h1 | h1
        · left; exact ⟨e, by simp, by rw [← h, h1]⟩
        · rcases (ih.1 ⟨e1, h1, h⟩) with ⟨e2, he2, h2⟩ | h2
          · left; exact ⟨e2, by simp [he2], h2⟩
          · right; exact h2
      · rintro (⟨e1, he1, h⟩ | h)
        · rcases List.mem_cons.1 he1 with h1 | h1
          · exact ⟨e, by simp, by rw [← h, h1]⟩
          · obtain ⟨e2, he2, h2⟩ := ih.2 (Or.inl ⟨e1, h1, h⟩)
            exact ⟨e2, by simp [he2], h2⟩
        · obtain ⟨e2, he2, h2⟩ := ih.2 (Or.inr h)
          exact ⟨e2, by simp [he2], h2⟩

theorem insertRow_pairwise (g : List (Entry κ σ ι)) (r : κ × ι)
    (hd : g.Pairwise fun e e' => e.1 ≠ e'.1) :
    (insertRow enc g r).Pairwise fun e e' => e.1 ≠ e'.1 := by
  induction g with
  | nil => simp [insertRow]
  | cons e rest ih =>
    have hd' := List.pairwise_cons.1 hd
    unfold insertRow
    by_cases hk : e.1 = enc r.1
    · rw [if_pos hk]
      exact List.pairwise_cons.2 ⟨hd'.1, hd'.2⟩
    · rw [if_neg hk]
      refine List.pairwise_cons.2 ⟨?_, ih hd'.2⟩
      intro e1 he1 heq
      rcases (insertRow_keys enc rest r e1.1).1 ⟨e1, he1, rfl⟩ with ⟨e2, he2, h2⟩ | h2
      · exact hd'.1 e2 he2 (heq.trans h2.symm)
      · exact hk (heq.trans h2)

theorem inv_nil : Inv enc ([] : List (κ × ι)) [] :=
  ⟨fun _ h => by simp at h, fun _ h => by simp at h, fun _ h => by simp at h, List.Pairwise.nil,
   fun _ h => by simp at h⟩

theorem inv_step (p : List (κ × ι)) (g : List (Entry κ σ ι)) (r : κ × ι) (h : Inv enc p g) :
    Inv enc (p ++ [r]) (insertRow enc g r) := by
  have hc := insertRow_cases enc g r h.distinct
  refine ⟨?_, ?_, ?_, insertRow_pairwise enc g r h.distinct, ?_⟩
  · intro e' he'
    rcases hc e' he' with ⟨h1, _⟩ | ⟨e, h1, _, h3⟩ | ⟨_, h2⟩
    · exact h.keyOf e' h1
    · rw [h3]; exact h.keyOf e h1
    · rw [h2]
  · intro e' he'
    rcases hc e' he' with ⟨h1, _⟩ | ⟨e, h1, _, h3⟩ | ⟨_, h2⟩
    · obtain ⟨r0, hr0, h0⟩ := h.occurs e' h1
      exact ⟨r0, by simp [hr0], h0⟩
    · obtain ⟨r0, hr0, h0⟩ := h.occurs e h1
      exact ⟨r0, by simp [hr0], by rw [h3]; exact h0⟩
    · exact ⟨r, by simp, by rw [h2]⟩
  · intro e' he'
    rw [membersEnc_append]
    rcases hc e' he' with ⟨h1, h2⟩ | ⟨e, h1, h2, h3⟩ | ⟨h1, h2⟩
    · rw [h.mem e' h1]
      have hne : ¬ enc r.1 = e'.1 := fun h' => h2 h'.symm
      have : membersEnc enc [r] e'.1 = [] := by
        simp [membersEnc, List.filter, hne]
      rw [this]; simp
    · rw [h3]
      have : membersEnc enc [r] e.1 = [r.2] := by
        simp [membersEnc, List.filter, h2]
      show e.2.2 ++ [r.2] = _
      rw [this, h.mem e h1]
    · rw [h2]
      have h3 : membersEnc enc p (enc r.1) = [] := by
        simp only [membersEnc, List.map_eq_nil_iff, List.filter_eq_nil_iff, decide_eq_true_eq]
        intro r0 hr0 heq
        obtain ⟨e, he, hk⟩ := h.covers r0 hr0
        exact h1 e he (hk.trans heq)
      have : membersEnc enc [r] (enc r.1) = [r.2] := by simp [membersEnc, List.filter]
      show [r.2] = _
      rw [h3, this]; rfl
  · intro r0 hr0
    rcases List.mem_append.1 hr0 with h0 | h0
    · obtain ⟨e, he, hk⟩ := h.covers r0 h0
      exact (insertRow_keys enc g r _).2 (Or.inl ⟨e, he, hk⟩)
    · have : r0 = r := by simpa using h0
      rw [this]
      exact (insertRow_keys enc g r _).2 (Or.inr rfl)

theorem inv_foldl (rest : List (κ × ι)) : ∀ (p : List (κ × ι)) (g : List (Entry κ σ ι)),
    Inv enc p g → Inv enc (p ++ rest) (rest.foldl (insertRow enc) g) := by
  induction rest with
  | nil => intro p g h; simpa using h
  | cons r rest ih =>
    intro p g h
    have := ih (p ++ [r]) (insertRow enc g r) (inv_step enc p g r h)
    simpa using this

theorem inv_groups (rows : List (κ × ι)) : Inv enc rows (groups enc rows) := by
  have := inv_foldl enc rows [] [] (inv_nil enc)
  simpa [groups] using this

/-- `distinctKeys` from pairwise distinctness -/
theorem distinctKeys_of_pairwise : ∀ (res : List (κ × List ι)),
    res.Pairwise (fun a b => a.1 ≠ b.1) → GroupBy.distinctKeys res = true := by
  intro res
  induction res with
  | nil => intro _; rfl
  | cons a rest ih =>
    intro h
    have h' := List.pairwise_cons.1 h
    simp only [GroupBy.distinctKeys, Bool.and_eq_true, List.all_eq_true, decide_eq_true_eq]
    exact ⟨fun b hb heq => h'.1 b hb heq.symm, ih h'.2⟩

/-- main lemma: grouping by the encoded key is the partition by key tuple when `enc` is
injective on the key tuples that occur in the batch -/
theorem results_partition (rows : List (κ × ι))
    (hinj : ∀ r ∈ rows, ∀ r' ∈ rows, enc r.1 = enc r'.1 → r.1 = r'.1) :
    GroupBy.partitionHolds rows (results enc rows) = true := by
  have inv := inv_groups enc rows
  -- key tuples of entries are tuples of rows, so injectivity applies to them
  have key_inj : ∀ e ∈ groups enc rows, ∀ r ∈ rows, enc r.1 = e.1 → r.1 = e.2.1 := by
    intro e he r hr heq
    obtain ⟨r0, hr0, h0⟩ := inv.occurs e he
    rw [← h0]
    exact hinj r hr r0 hr0 (by rw [heq, inv.keyOf e he, h0])
  simp only [GroupBy.partitionHolds, Bool.and_eq_true]
  refine ⟨⟨?_, ?_⟩, ?_⟩
  · apply distinctKeys_of_pairwise
    unfold results
    rw [List.pairwise_map]
    refine inv.distinct.imp_of_mem ?_
    intro a b ha hb hne heq
    apply hne
    rw [inv.keyOf a ha, inv.keyOf b hb]
    exact congrArg enc heq
  · simp only [results, List.all_map, List.all_eq_true, Function.comp, Bool.and_eq_true,
      decide_eq_true_eq, Bool.not_eq_true', List.isEmpty_eq_false_iff]
    intro e he
    have hm : e.2.2 = GroupBy.members rows e.2.1 := by
      rw [inv.mem e he]
      unfold membersEnc GroupBy.members
      congr 1
      apply List.filter_congr
      intro r hr
      simp only [decide_eq_decide]
      constructor
      · exact key_inj e he r hr
      · intro h; rw [h, inv.keyOf e he]
    refine ⟨hm, ?_⟩
    rw [hm]
    obtain ⟨r0, hr0, h0⟩ := inv.occurs e he
    intro hnil
    have : r0.2 ∈ GroupBy.members rows e.2.1 := by
      unfold GroupBy.members
      exact List.mem_map.2 ⟨r0, List.mem_filter.2 ⟨hr0, by simpa using h0⟩, rfl⟩
    rw [hnil] at this
    simp at this
  · simp only [List.all_eq_true, List.any_eq_true, decide_eq_true_eq]
    intro r hr
    obtain ⟨e, he, hk⟩ := inv.covers r hr
    exact ⟨e.2, List.mem_map.2 ⟨e, he, rfl⟩, (key_inj e he r hr hk.symm).symm⟩

end
end GroupPart
