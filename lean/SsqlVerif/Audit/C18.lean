import SsqlVerif.Props.C18
#print axioms C18.run_reaches
#print axioms C18.stop_idempotent
#print axioms C18.emit_after_stop_noop
#print axioms C18.stop_barrier
#print axioms C18.stop_barrier_unguarded_fails
#print axioms C18.sink_panic_contained
#print axioms C18.no_self_deadlock_on_reentrant_sink
#print axioms C18.no_self_deadlock_holding_fails
#print axioms C18.self_wait_is_stuck
#print axioms C18.facts_lifecycle
