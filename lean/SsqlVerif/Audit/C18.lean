import SsqlVerif.Props.C18
#print axioms C18.init_log
