import SsqlVerif.Props.C11
#print axioms C11.facts_keywords
#print axioms C11.facts_token_codes
