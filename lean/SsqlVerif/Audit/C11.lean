import SsqlVerif.Props.C11
#print axioms C11.lex_progress
#print axioms C11.lex_terminates
#print axioms C11.lex_total
#print axioms C11.lex_token_is_slice
#print axioms C11.lex_layout_insensitive
#print axioms C11.lex_layout_pair
#print axioms C11.lex_keyword_case_insensitive
#print axioms C11.lex_literal_opaque
#print axioms C11.lex_backtick_opaque
#print axioms C11.facts_keywords
#print axioms C11.facts_typos
#print axioms C11.facts_token_codes
