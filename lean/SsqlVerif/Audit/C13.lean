import SsqlVerif.Props.C13
#print axioms C13.like_loop_eq_spec
#print axioms C13.like_loop_eq_spec_bytes
#print axioms C13.convertLike_sound
#print axioms C13.rewritten_eq_loop
#print axioms C13.isnull_paths_agree
#print axioms C13.facts_wildcards
