import SsqlVerif.Props.C02
#print axioms C02.tumbling_no_early_fire
#print axioms C02.tumbling_drop_only_if_late
#print axioms C02.tumbling_dropped_row_inert
#print axioms C02.tumbling_late_update_contents
#print axioms C02.tumbling_late_update_only_if_allowed
#print axioms C02.future_never_moves_watermark
#print axioms C02.watermark_monotone
#print axioms C02.send_retry
#print axioms C02.facts_watermark
#print axioms C02.sliding_no_early_fire
#print axioms C02.session_no_early_delivery
#print axioms C02.session_drop_only_if_late
#print axioms C02.session_late_update
#print axioms C02.sliding_late_update_contents
#print axioms C02.sliding_every_open_window_redelivered
