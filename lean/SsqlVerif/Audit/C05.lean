import SsqlVerif.Props.C05
#print axioms C05.fieldpath_eq_structural
#print axioms C05.bracket_loop_fuel_irrelevant
#print axioms C05.direct_eq_spec
#print axioms C05.execute_accepts_distinct_names
#print axioms C05.sync_async_same
#print axioms C05.single_producer_order
#print axioms C05.each_sink_sees_ordered_results
#print axioms C05.channel_send_never_reorders
#print axioms C05.facts_pipeline
