import SsqlVerif.Props.C05
