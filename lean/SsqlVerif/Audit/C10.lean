import SsqlVerif.Props.C10
#print axioms C10.each_once_counting
#print axioms C10.session_bounds
#print axioms C10.no_early_delivery
#print axioms C10.gap_splits_partial
#print axioms C10.gap_splits_fails
