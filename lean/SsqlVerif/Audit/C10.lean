import SsqlVerif.Props.C10
#print axioms C10.each_once_counting
#print axioms C10.session_bounds
#print axioms C10.no_early_delivery
#print axioms C10.gap_splits
#print axioms C10.open_sessions_apart
#print axioms C10.joins_exactly_the_touched
#print axioms C10.inorder_outcome_is_reference
#print axioms C10.reference_ignores_schedule
#print axioms C10.schedule_independent
#print axioms C10.delivered_is_reference_after_flush
#print axioms C10.manual_flush
