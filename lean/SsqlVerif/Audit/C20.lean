import SsqlVerif.Props.C20
#print axioms C20.caller_row_unchanged
#print axioms C20.caller_row_unchanged_eq
#print axioms C20.in_place_injection_reaches_the_caller
#print axioms C20.repair_preserves_working_view
#print axioms C20.sink_rows_not_altered_later
#print axioms C20.sink_rows_not_altered_later_prefix
#print axioms C20.cache_transparent
#print axioms C20.instances_independent
#print axioms C20.instances_independent_cold
#print axioms C20.facts_groupkey
