import SsqlVerif.Props.C09
#print axioms C09.counting_eq_chunks
#print axioms C09.counting_interleaving_irrelevant
#print axioms C09.counting_lt_N_silent
#print axioms C09.counting_batches_have_N
#print axioms C09.counting_no_row_twice
#print axioms C09.counting_eq_chunks_tuple
#print axioms C09.facts_counting
#print axioms C09.windowKey_determines_group_partial
#print axioms C09.windowKey_determines_group_fails
