import SsqlVerif.Props.C08
#print axioms C08.emission_exact
#print axioms C08.intervals_strictly_increasing
#print axioms C08.evict_safe
#print axioms C08.in_every_passed_cover
#print axioms C08.ontime_cover_from_arrival
#print axioms C08.earliest_start_before_advance
#print axioms C08.pass_done
#print axioms C08.late_extension_coincides
#print axioms C08.redelivered_row_stays_buffered
#print axioms C08.late_row_in_current_slot_stays_buffered
