import SsqlVerif.Props.C01
#print axioms C01.exactly_once_counting
#print axioms C01.emission_shape
#print axioms C01.intervals_strictly_increasing
#print axioms C01.row_in_one_interval
#print axioms C01.ontime_accepted
#print axioms C01.buffered_not_passed
#print axioms C01.accepted_and_passed_is_emitted
#print axioms C01.processing_time_exactly_once
#print axioms C01.facts_watermark
#print axioms C01.exactly_once_counting_any_lateness
#print axioms C01.purge_keeps_pending_rows
