import SsqlVerif.Props.C12
#print axioms C12.fast_agrees
#print axioms C12.fast_declines_iff
#print axioms C12.fast_compound_agrees
#print axioms C12.evaluate_eq_general
#print axioms C12.eval_total_bool
#print axioms C12.paren_equiv
#print axioms C12.spec_holds
#print axioms C12.shape_cmp_iff
#print axioms C12.shape_compare_sound
#print axioms C12.shape_compound_sound
#print axioms C12.newCond_evaluate
#print axioms C12.round53_exact
#print axioms C12.exact_vs_rounded_literal
#print axioms C12.guard_needed
#print axioms C12.facts_regexes
#print axioms C12.facts_guards
