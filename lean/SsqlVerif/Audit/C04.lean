import SsqlVerif.Props.C04
#print axioms C04.encBar_injective
#print axioms C04.escJoin_injective
#print axioms C04.encAgg_injective
#print axioms C04.encCounting_injective
#print axioms C04.encSession_injective
#print axioms C04.encGlobal_injective
#print axioms C04.encAggregator_injective
#print axioms C04.enc_respects_eq
#print axioms C04.group_partition_of_injective
#print axioms C04.group_partition_aggregator
#print axioms C04.group_partition_window
#print axioms C04.facts_encoders
