import SsqlVerif.Props.C15
