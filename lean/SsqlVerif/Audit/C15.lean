import SsqlVerif.Props.C15
#print axioms C15.nfa_accepts_iff_lang
#print axioms C15.compileNode_correct
#print axioms C15.pattern_tree_lang
#print axioms C15.emitted_match_valid
#print axioms C15.skip_past_last_row_disjoint
#print axioms C15.match_starts_increasing
#print axioms C15.match_number_sequential
#print axioms C15.flush_emits_accepting
#print axioms C15.cep_partition_isolation
#print axioms C15.valid_match_explored
#print axioms C15.cep_complete_longest
#print axioms C15.reference_matcher_exact
#print axioms C15.reference_matcher_sound
#print axioms C15.facts_cep
