import SsqlVerif.Props.C19
#print axioms C19.init_processed
