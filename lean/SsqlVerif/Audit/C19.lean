import SsqlVerif.Props.C19
#print axioms C19.run_reaches
#print axioms C19.conservation
#print axioms C19.conservation_quiescent
#print axioms C19.no_duplicate
#print axioms C19.block_never_drops
#print axioms C19.capacity_le_max
#print axioms C19.expansion_monotone
#print axioms C19.single_producer_order
#print axioms C19.single_producer_order_unlocked_fails
#print axioms C19.spec_holds
#print axioms C19.facts_ingest
