import SsqlVerif.Props.C14
#print axioms C14.placeholder
