import SsqlVerif.Props.C14
#print axioms C14.lag_bounded_history_eq_spec
#print axioms C14.latest_eq_spec
#print axioms C14.changed_col_eq_spec
#print axioms C14.changed_cols_eq_spec
#print axioms C14.had_changed_eq_spec
#print axioms C14.acc_eq_spec
#print axioms C14.partitionKey_injective
#print axioms C14.lru_no_evict_of_le_cap
#print axioms C14.engine_eq_spec
#print axioms C14.partition_isolation
#print axioms C14.lru_evict_resets
#print axioms C14.when_gating
#print axioms C14.where_order
#print axioms C14.field_eq_spec
#print axioms C14.query_column_eq_spec
#print axioms C14.oracle_cap_flags
#print axioms C14.facts_constants
