import SsqlVerif.Props.C16
#print axioms C16.encodeKey_respects_keyEq
#print axioms C16.encodeKey_reflects_keyEq
#print axioms C16.numeric_normalisation
#print axioms C16.composite_all_components
#print axioms C16.table_refines_map
#print axioms C16.earlier_rows_unaffected
#print axioms C16.read_your_writes_upsert
#print axioms C16.read_your_writes_delete
#print axioms C16.inner_left_semantics
#print axioms C16.facts_join_key
