import SsqlVerif.Props.C17
#print axioms C17.global_fires_iff_engine
#print axioms C17.global_fires_iff_partial
#print axioms C17.engine_eq_sql_of_safe
#print axioms C17.global_fires_iff_fails
#print axioms C17.global_result_exact
#print axioms C17.global_restart_state
#print axioms C17.global_restart_empty
#print axioms C17.global_group_isolation_partial
#print axioms C17.keysInj_encGlobal
#print axioms C17.global_group_isolation
#print axioms C17.global_fires_and_result_global
#print axioms C17.trigger_binding_same_call
#print axioms C17.trigger_binding_sound
#print axioms C17.global_trace_partial
#print axioms C17.spec_determines_trace
#print axioms C17.running_aggregate_eq
#print axioms C17.facts_global_window
