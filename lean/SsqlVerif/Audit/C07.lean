import SsqlVerif.Props.C07
#print axioms C07.select_arith_on_aggs
#print axioms C07.select_item_value
#print axioms C07.select_arith_structure
#print axioms C07.having_exact_row
#print axioms C07.having_exact
#print axioms C07.no_hidden_columns
#print axioms C07.sort_perm
#print axioms C07.less_strict_weak
#print axioms C07.sort_sorted
#print axioms C07.limit_prefix
#print axioms C07.distinct_first_occurrence
#print axioms C07.groupBatch_keys_nodup
#print axioms C07.pipeline_eq_spec
#print axioms C07.pipeline_eq_spec_batch
#print axioms C07.oracle_accepts_every_order
#print axioms C07.intNum_ord
#print axioms C07.facts_hidden_names
