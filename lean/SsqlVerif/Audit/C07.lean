import SsqlVerif.Props.C07
#print axioms C07.limit_prefix
