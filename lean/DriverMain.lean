import Driver.Proto
import Driver.C13
set_option autoImplicit false
open Proto

def dispatch (c : Case) : CaseOut :=
  match c.prop with
  | "C13" => DrvC13.run c
  | _ => { obs := c.ops.map fun _ => [["no-model"]], spec := "fail:no-model" }

/-- fold trace lines into cases, printing each finished case -/
partial def loop (h : IO.FS.Stream) (out : IO.FS.Stream) (cur : Option Case) : IO Unit := do
  let line ← h.getLine
  if line.isEmpty then return ()
  let toks := tokens line
  match toks, cur with
  | "case" :: p :: s :: i :: _, _ =>
    loop h out (some { prop := p, seed := s, idx := i, cfg := [], ops := [] })
  | "cfg" :: rest, some c => loop h out (some { c with cfg := c.cfg ++ [rest] })
  | "op" :: rest, some c => loop h out (some { c with ops := (rest, []) :: c.ops })   -- reversed; fixed at `end`
  | "obs" :: rest, some c =>
    match c.ops with
    | (op, os) :: more => loop h out (some { c with ops := (op, os ++ [rest]) :: more })
    | [] => loop h out cur
  | "end" :: _, some c =>
    let c := { c with ops := c.ops.reverse }
    let o := dispatch c
    for l in renderCase c o do out.putStrLn l
    loop h out none
  | _, _ => loop h out cur

def main : IO Unit := do
  let stdin ← IO.getStdin
  let stdout ← IO.getStdout
  loop stdin stdout none
  stdout.flush
