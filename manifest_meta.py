import subprocess as _sp
HOOK_COMMITS = _sp.run("git -C /repo log --reverse --format=%h --grep='^verif hooks'", shell=True, capture_output=True, text=True).stdout.split()
NOTES = ("Technique family: machine-checked proof in Lean 4. Every claimed property has theorems over a hand-written Lean model "
         "(lean/SsqlVerif/Props/Cxx.lean) and a differential correspondence check tying the model to /repo's working tree. "
         "See DESIGN.md; known-findings.txt lists fixed defects and recorded findings.")
_PENDING = "framework for this property not built yet in this session (planned in DESIGN.md §5); no claim is made"
NOT_APPLICABLE = {f"C{i:02d}": _PENDING for i in range(1, 21)}
