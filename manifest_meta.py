HOOK_COMMITS = ["a97bcdc"]
NOTES = ("Technique family: machine-checked proof in Lean 4. Every claimed property has theorems over a hand-written Lean model "
         "(lean/SsqlVerif/Props/Cxx.lean) and a differential correspondence check tying the model to /repo's working tree. "
         "See DESIGN.md; known-findings.txt lists fixed defects and recorded findings.")
_PENDING = "framework for this property not built yet in this session (planned in DESIGN.md §5); no claim is made"
NOT_APPLICABLE = {f"C{i:02d}": _PENDING for i in range(1, 21)}
META = {
 "C13": dict(
   text="Proof: for every text and pattern over any alphabet the two-pointer matcher model equals the declarative LIKE relation, "
        "and the operator rewriting of convertLikeToFunction decides the same relation; IS [NOT] NULL paths agree (Lean theorems, no bound). "
        "The three Go matchers, the rewriting and the SQL positions WHERE/CASE/HAVING are tied to the model by differential correspondence on generated (text, pattern) pairs.",
   note="Trusted: Lean kernel; hand-written model (tied by correspondence, not verified); expr-lang string operators = Go strings functions; harness/hook code. LIKE over NULL text and patterns containing quotes/backslashes are outside the quantifier."),
}
